#!/usr/bin/env python3
"""Sensitivity runs: plants small source changes (mutants) in a scratch copy of rust-cc and
runs the registered quick checks against it (from a scratch copy of /verif whose harness
points at the scratch repository), so /repo and /verif/target stay untouched.

usage: mutants.py [--only NAME[,NAME]] [--skip-tests] [--seeded]   (results: /tmp/mut/results.json)
"""
import json, os, shutil, subprocess, sys, time

MUT = "/tmp/mut"
REPO = os.path.join(MUT, "repo")
VERIF = os.path.join(MUT, "verif")
ENV = dict(os.environ, CARGO_NET_OFFLINE="true", RUST_BACKTRACE="0")

# (name, properties expected to catch it, file, old, new)
MUTANTS = [
    ("c01-no-reset-in-add_to_list", ["C01", "C05"], "src/cc.rs",
     "            pc.add(ptr);\n            counter_marker.reset_tracing_counter();\n", "            pc.add(ptr);\n"),
    ("c01-no-reset-in-mark_self_and_append", ["C01", "C06"], "src/lists.rs",
     "                    elem.as_ref().counter_marker().reset_tracing_counter();\n                    elem.as_ref().counter_marker().mark(mark);", "                    elem.as_ref().counter_marker().mark(mark);"),
    ("c01-queue-path-no-reset", ["C01", "C05"], "src/cc.rs",
     "                    counter_marker.reset_tracing_counter();\n                    let res = counter_marker.increment_tracing_counter();\n                    debug_assert!(res.is_ok());\n\n                    queue.add(ptr);",
     "                    let res = counter_marker.increment_tracing_counter();\n                    debug_assert!(res.is_ok());\n\n                    queue.add(ptr);"),
    ("c02-one-pass", ["C02"], "src/lib.rs", "    for _ in 0..10 {", "    for _ in 0..1 {"),
    ("c02-mark-alive-on-upgrade-drops-buffering", ["C02"], "src/cc.rs",
     "        if self.counter_marker().is_in_list_or_queue() {\n            decrement_counter(self);\n            return;\n        }",
     "        if self.counter_marker().is_in_list_or_queue() || self.counter_marker().tracing_counter() != 0 {\n            decrement_counter(self);\n            return;\n        }"),
    ("c03-free-before-drop", ["C03", "C01"], "src/cc.rs",
     "                    drop_in_place(self.inner().get_elem_mut());\n", "                    cc_dealloc(self.inner, layout, state);\n                    drop_in_place(self.inner().get_elem_mut());\n                    if true { return; }\n"),
    ("c03-try-unwrap-skips-drop_metadata", ["C08", "C09", "C13", "C03"], "src/cc.rs",
     "            #[cfg(feature = \"weak-ptrs\")]\n            cc.inner().drop_metadata();\n            // There's no reason here", "            // There's no reason here"),
    ("c04-upgrade-without-increment", ["C04", "C08", "C01"], "src/weak/mod.rs",
     "            if unsafe { self.cc.as_ref() }.counter_marker().increment_counter().is_err() {\n                panic!(\"Too many references has been created to a single Cc\");\n            }\n\n            let upgraded",
     "            let upgraded"),
    ("c04-no-remove_from_list-in-last-owner", ["C04", "C01", "C11"], "src/cc.rs",
     "                decrement_counter(self);\n                remove_from_list(self.inner.cast());\n", "                decrement_counter(self);\n"),
    ("c05-set_finalized-after-call", ["C05"], "src/cc.rs",
     "                ptr.as_ref().counter_marker().set_finalized(true);\n\n                CcBox::get_traceable(ptr).as_ref().finalize_elem();\n",
     "                CcBox::get_traceable(ptr).as_ref().finalize_elem();\n                ptr.as_ref().counter_marker().set_finalized(true);\n"),
    ("c05-new-ignores-is_finalizing", ["C05"], "src/cc.rs",
     "        let already_finalized = state.is_finalizing();", "        let already_finalized = state.is_finalizing() && false;"),
    ("c06-dealloc-after-finalizing-pass", ["C06", "C01"], "src/lib.rs",
     "            if !has_finalized {\n                deallocate_list(non_root_list, state);", "            if !has_finalized || non_root_list_size > 3 {\n                deallocate_list(non_root_list, state);"),
    ("c07-no-reset-mark-guard", ["C07", "C01", "C11"], "src/lib.rs",
     "    let drop_guard = ResetMarkDropGuard::new(ptr);\n", "    let drop_guard = core::mem::ManuallyDrop::new(ResetMarkDropGuard::new(ptr));\n"),
    ("c07-d1-reverted", ["C07", "C01", "C05"], "src/lib.rs",
     "    let reset_guard = ResetTracingCountersGuard { possible_cycles };\n", "    let reset_guard = mem::ManuallyDrop::new(ResetTracingCountersGuard { possible_cycles });\n"),
    ("c08-no-is_dropped-test", ["C08"], "src/weak/mod.rs",
     "if counter == 0 || counter_marker.is_dropped() || (", "if counter == 0 || ("),
    ("c08-no-set_dropped-in-drop_inner", ["C08"], "src/cc.rs",
     "            ptr.as_ref().counter_marker().set_dropped(true);\n        }\n\n        CcBox::get_traceable(ptr).as_mut().drop_elem();", "        }\n\n        CcBox::get_traceable(ptr).as_mut().drop_elem();"),
    ("c09-drop_metadata-condition-flipped", ["C09", "C03"], "src/cc.rs",
     "                if boxed.as_ref().weak_counter_marker.counter() == 0 {", "                if boxed.as_ref().weak_counter_marker.counter() != 0 {"),
    ("c09-weak-drop-frees-while-accessible", ["C09", "C03"], "src/weak/mod.rs",
     "if metadata.as_ref().weak_counter_marker.counter() == 0 && !metadata.as_ref().weak_counter_marker.is_accessible() {", "if metadata.as_ref().weak_counter_marker.counter() == 0 {"),
    ("c10-clean-does-not-remove", ["C10"], "src/cleaners/mod.rs",
     "        let _ = map.remove(self.key);", "        let _ = map.get(self.key);"),
    ("c11-remove-forgets-size", ["C11"], "src/lists.rs",
     "    pub(crate) fn remove(&self, ptr: NonNull<CcBox<()>>) {\n        self.size.set(self.size.get() - 1);\n", "    pub(crate) fn remove(&self, ptr: NonNull<CcBox<()>>) {\n"),
    ("c11-try-unwrap-skips-record_deallocation", ["C11", "C02"], "src/cc.rs",
     "            unsafe {\n                cc_dealloc(cc.inner, layout, state);\n            }\n            Some(t)", "            unsafe {\n                let _ = state;\n                alloc::alloc::dealloc(cc.inner.cast().as_ptr(), layout);\n            }\n            Some(t)"),
    ("c12-collect_cycles-ignores-is_collecting", ["C12"], "src/lib.rs",
     "    let _ = try_state(|state| {\n        if state.is_collecting() {\n            return;\n        }\n\n        let _ = POSSIBLE_CYCLES.try_with(|pc| {\n            collect(state, pc);",
     "    let _ = try_state(|state| {\n        if state.is_collecting() && state.is_dropping() {\n            return;\n        }\n\n        let _ = POSSIBLE_CYCLES.try_with(|pc| {\n            collect(state, pc);"),
    ("c12-try-unwrap-ignores-is_finalizing", ["C12"], "src/cc.rs",
     "            if state.is_finalizing() {\n                // To make this method", "            if state.is_finalizing() && state.is_collecting() {\n                // To make this method"),
    ("c12-d3-reverted", ["C12"], "src/lib.rs",
     "        let _dropping_guard = replace_state_field!(dropping, false, state);\n\n        trace_counting(", "        trace_counting("),
    ("c13-no-remove_from_list-before-move-out", ["C13", "C11", "C01"], "src/cc.rs",
     "            remove_from_list(cc.inner.cast());\n\n            // SAFETY: cc is unique", "            // SAFETY: cc is unique"),
    ("c14-closure-strong-count-left-at-1", ["C14"], "src/weak/mod.rs",
     "            let _ = counter_marker.decrement_counter();\n        }", "            let _ = counter_marker;\n        }"),
    ("c15-should-collect-ge", ["C15"], "src/config.rs",
     "        if state.allocated_bytes() > self.bytes_threshold {\n            return true;", "        if state.allocated_bytes() >= self.bytes_threshold {\n            return true;"),
    ("c15-buffered-threshold-ge", ["C15"], "src/config.rs",
     "            possible_cycles.size() > buffered_threshold.get()", "            possible_cycles.size() >= buffered_threshold.get()"),
    ("c15-halving-floor-off-by-one", ["C15"], "src/config.rs",
     "            if new_threshold <= DEFAULT_BYTES_THRESHOLD {", "            if new_threshold < DEFAULT_BYTES_THRESHOLD {"),
    ("c15-halving-condition-lt", ["C15"], "src/config.rs",
     "        while allocated <= ((self.bytes_threshold as f64) * self.adjustment_percent) {", "        while allocated < ((self.bytes_threshold as f64) * self.adjustment_percent) - 64.0 {"),
    ("c16-strong-max-is-mask", ["C16", "C04"], "src/counter_marker.rs",
     "pub(crate) const MAX: u16 = COUNTER_MASK - 1;", "pub(crate) const MAX: u16 = COUNTER_MASK;"),
    ("c16-weak-clone-unchecked", ["C16", "C09"], "src/weak/mod.rs",
     "            if wcm.increment_counter().is_err() {\n                panic!(\"Too many references has been created to a single Weak\");\n            }", "            let _ = wcm.increment_counter();"),
    ("c17-result-traces-only-ok", ["C17"], "src/trace.rs",
     "            Err(err) => err.trace(ctx),", "            Err(_err) => {},"),
    ("c17-refcell-traces-through-try_borrow", ["C17"], "src/trace.rs",
     "        if let Ok(borrow) = self.try_borrow_mut() {\n            borrow.trace(ctx);", "        if let Ok(borrow) = self.try_borrow() {\n            borrow.trace(ctx);"),
    ("c17-array-skips-last", ["C17"], "src/trace.rs",
     "unsafe impl<T: Trace, const N: usize> Trace for [T; N] {\n    #[inline]\n    fn trace(&self, ctx: &mut Context<'_>) {\n        for elem in self {",
     "unsafe impl<T: Trace, const N: usize> Trace for [T; N] {\n    #[inline]\n    fn trace(&self, ctx: &mut Context<'_>) {\n        for elem in self.iter().take(N.max(1) - (N > 8) as usize) {"),
    ("c17-option-finalize-not-forwarded", ["C17"], "src/trace.rs",
     "        if let Some(value) = self {\n            value.finalize();\n        }", "        if let Some(_value) = self {\n        }"),
    ("c18-ignore-filter-inverted-for-variants", ["C18"], "derive/src/lib.rs",
     "        s.filter_variants(|vi| {\n            !vi.ast().attrs", "        s.filter_variants(|vi| {\n            vi.ast().attrs"),
    ("c18-drop-emission-removed", ["C18"], "derive/src/lib.rs",
     "    if no_drop {\n        return trace_impl;\n    }", "    if no_drop || true {\n        return trace_impl;\n    }"),
    ("c18-ignored-field-still-traced-in-tuple-structs", ["C18"], "derive/src/lib.rs",
     "    s.filter(|bi| {\n        !bi.ast().attrs", "    s.filter(|bi| {\n        bi.ast().ident.is_none() || !bi.ast().attrs"),
    ("c19-add_to_list-with", ["C19"], "src/cc.rs",
     "    if !counter_marker.is_in_possible_cycles() {\n        let _ = POSSIBLE_CYCLES.try_with(|pc| {", "    if !counter_marker.is_in_possible_cycles() {\n        let _ = POSSIBLE_CYCLES.with(|pc| {"),
    ("c20-lt-as-le", ["C20"], "src/cc.rs",
     "    fn lt(&self, other: &Self) -> bool {\n        **self < **other", "    fn lt(&self, other: &Self) -> bool {\n        **self <= **other"),
    ("c20-ptr_eq-compares-values-address-of-clone", ["C20"], "src/cc.rs",
     "        ptr::eq(this.inner.as_ptr() as *const (), other.inner.as_ptr() as *const ())", "        ptr::eq(this.inner.as_ptr() as *const (), other.inner.as_ptr() as *const ()) || (core::mem::size_of_val(&**this) == 0 && core::mem::size_of_val(&**other) == 0)"),
    ("c20-hash-adds-prefix", ["C20"], "src/cc.rs",
     "        (**self).hash(state);", "        state.write_u8(0);\n        (**self).hash(state);"),
    ("c20-display-uses-debug", ["C20"], "src/cc.rs",
     "        Display::fmt(&**self, f)", "        write!(f, \"{}\", &**self)"),
    ("c14-d2-reverted", ["C14", "C07"], "src/weak/mod.rs",
     "            #[cfg(feature = \"auto-collect\")]\n            crate::trigger_collection(state);\n\n            CcBox::new(NewCyclicWrapper::new(), state)",
     "            let w = NewCyclicWrapper::new();\n            #[cfg(feature = \"auto-collect\")]\n            crate::trigger_collection(state);\n\n            CcBox::new(w, state)"),
]


def sh(cmd, cwd=None, timeout=3600):
    p = subprocess.run(cmd, cwd=cwd, env=ENV, shell=isinstance(cmd, str), stdout=subprocess.PIPE, stderr=subprocess.STDOUT, text=True, timeout=timeout)
    return p.returncode, p.stdout


def setup():
    os.makedirs(MUT, exist_ok=True)
    if not os.path.isdir(REPO):
        rc, out = sh(["git", "-C", "/repo", "worktree", "add", "--detach", REPO, "HEAD"])
        assert rc == 0, out
    else:
        sh(["git", "-C", REPO, "checkout", "--detach", "-q", subprocess.run(["git", "-C", "/repo", "rev-parse", "HEAD"], stdout=subprocess.PIPE, text=True).stdout.strip()])
        sh(["git", "-C", REPO, "checkout", "--", "."])
    sh("rsync -a --delete --exclude target --exclude .git --exclude replays --exclude evidence /verif/ %s/" % VERIF)
    ct = os.path.join(VERIF, "harness", "Cargo.toml")
    s = open(ct).read().replace('path = "/repo"', 'path = "%s"' % REPO)
    open(ct, "w").write(s)
    dg = os.path.join(VERIF, "lib", "derivegen.py")
    s = open(dg).read().replace('path = "/repo"', 'path = "%s"' % REPO).replace('"/repo/Cargo.lock"', '"%s/Cargo.lock"' % REPO)
    open(dg, "w").write(s)


def suite_ok():
    rc, out = sh("cargo test --offline --lib --test cc --test auto_collect 2>&1 | grep -E '^test result|FAILED|panicked' | head -20", cwd=REPO)
    ok = "FAILED" not in out and out.count("test result: ok") >= 3
    rc2, out2 = sh("cargo build --offline --features weak-ptrs,cleaners 2>&1 | grep -E '^error' | head; cargo build --offline --no-default-features --features std 2>&1 | grep -E '^error' | head", cwd=REPO)
    return ok and "error" not in out2, out + out2


def run_checks(props, tier="quick"):
    res = {}
    for p in props:
        t0 = time.time()
        rc, out = sh(["./check", p, "--tier", tier], cwd=VERIF)
        sig = [l for l in out.splitlines() if l.startswith("signature:")]
        res[p] = {"rc": rc, "sig": sig[:2], "wall": round(time.time() - t0, 1), "tail": out[-300:] if rc not in (0, 1) else ""}
    return res


def main():
    only = None
    skip_tests = "--skip-tests" in sys.argv
    allprops = "--all-props" in sys.argv
    if "--only" in sys.argv:
        only = sys.argv[sys.argv.index("--only") + 1].split(",")
    setup()
    results = {}
    rpath = os.path.join(MUT, "results.json")
    if os.path.exists(rpath):
        results = json.load(open(rpath))
    muts = list(MUTANTS)
    if "--seeded" in sys.argv:
        muts = []
        sd = "/verif/seeded"
        for d in sorted(os.listdir(sd)):
            if not os.path.isdir(os.path.join(sd, d)):
                continue
            meta = json.load(open(os.path.join(sd, d, "meta.json")))
            muts.append(("seeded-" + d, meta["expected_props"], os.path.join(sd, d, "patch.diff"), None, None))
    for name, props, f, old, new in muts:
        if only and name not in only:
            continue
        sh(["git", "-C", REPO, "checkout", "--", "."])
        if old is None:
            rc, out = sh(["git", "-C", REPO, "apply", f])
            if rc != 0:
                results[name] = {"error": "patch does not apply: " + out[-200:]}
                continue
        else:
            path = os.path.join(REPO, f)
            s = open(path).read()
            if old not in s:
                results[name] = {"error": "pattern not found"}
                print(name, "PATTERN NOT FOUND")
                continue
            open(path, "w").write(s.replace(old, new, 1))
        entry = {"props": props}
        if not skip_tests:
            ok, out = suite_ok()
            entry["suite_passes"] = ok
            if not ok:
                entry["suite_out"] = out[-600:]
        plist = sorted(set(props)) if not allprops else ["C%02d" % i for i in range(1, 21)]
        entry["checks"] = run_checks(plist)
        entry["caught_by"] = [p for p, r in entry["checks"].items() if r["rc"] == 1]
        results[name] = entry
        print(name, "suite_ok=%s" % entry.get("suite_passes"), "caught_by=%s" % entry["caught_by"], {p: (r["rc"], r["sig"][:1]) for p, r in entry["checks"].items()}, flush=True)
        json.dump(results, open(rpath, "w"), indent=1)
    sh(["git", "-C", REPO, "checkout", "--", "."])


if __name__ == "__main__":
    main()
