#!/usr/bin/env python3
"""Cross sweep: every heap property x every op profile x configs x seeds. Prints failing signatures.
usage: sweep.py CASES SEEDS(comma) [FAULTS] [props comma] [configs comma]"""
import json, os, subprocess, sys, itertools
from concurrent.futures import ThreadPoolExecutor
ROOT = os.path.dirname(os.path.dirname(os.path.abspath(__file__)))
cases = sys.argv[1]; seeds = sys.argv[2].split(','); faults = sys.argv[3] if len(sys.argv) > 3 else '2'
props = sys.argv[4].split(',') if len(sys.argv) > 4 and sys.argv[4] else ['C%02d' % i for i in range(1, 15)]
configs = sys.argv[5].split(',') if len(sys.argv) > 5 else ['full-dev', 'nofin-dev', 'default-release', 'min-release', 'noauto-dev', 'full-release']
profiles = ['general', 'garbage', 'finalizers', 'resurrection', 'weak', 'counts', 'cleaners', 'nesting', 'unwrap', 'cyclic', 'counters', 'long']
os.makedirs('/tmp/sweep', exist_ok=True)
def run(t):
    prop, prof, cfg, seed = t
    name = '%s-%s-%s-%s' % (prop, prof, cfg, seed)
    out = '/tmp/sweep/%s.json' % name; rep = '/tmp/sweep/%s.replay.json' % name
    for f in (out, rep):
        if os.path.exists(f): os.remove(f)
    p = subprocess.run([os.path.join(ROOT, 'target/bin', cfg, 'rccv'), 'g1', '--prop', prop, '--seed', seed, '--config-name', cfg, '--out', out,
                        '--replay-out', rep, '--known', os.path.join(ROOT, 'KNOWN_FINDINGS.txt'), '--profile', prof, '--faults', faults, '--cases', cases],
                       stdout=subprocess.PIPE, stderr=subprocess.PIPE, text=True)
    sig = None
    if p.returncode != 0:
        try:
            r = json.load(open(out)); sig = (r['extra']['violation'] or {}).get('signature') or ('hang' if r['hangs'] else str(r['harness_msgs']))
        except Exception:
            sig = 'rc=%d %s' % (p.returncode, p.stderr[-200:])
    return name, p.returncode, sig, rep
jobs = list(itertools.product(props, profiles, configs, seeds))
with ThreadPoolExecutor(max_workers=16) as ex:
    res = list(ex.map(run, jobs))
bad = [r for r in res if r[1] != 0]
agg = {}
for name, rc, sig, rep in bad:
    agg.setdefault((name.split('-')[0], sig), []).append(rep)
for (prop, sig), reps in sorted(agg.items()):
    print(prop, sig, len(reps), reps[0])
print('jobs', len(jobs), 'failing', len(bad))
