#!/usr/bin/env python3
"""Confirms a seeded change delivered by a sub-agent in a scratch worktree:
  - the demonstration passes on the unchanged code and fails with the change,
  - the existing suite (default features; lib + cc + auto_collect, i.e. the 63 pinned tests) still passes with the change,
  - the change compiles with the feature sets the harness uses.
usage: seedcheck.py <agent OUT dir> <name> <primary property> "<needs>" [features for the demo]
Writes /verif/seeded/<name>/{patch.diff, seed_demo.rs, notes.md, meta.json}."""
import json, os, shutil, subprocess, sys
out, name, prop, needs = sys.argv[1:5]
feats = sys.argv[5] if len(sys.argv) > 5 else ""
WT = "/tmp/seedchk_" + name
ENV = dict(os.environ, CARGO_NET_OFFLINE="true", RUST_BACKTRACE="0")
def sh(cmd, cwd=None):
    p = subprocess.run(cmd, cwd=cwd, env=ENV, shell=True, stdout=subprocess.PIPE, stderr=subprocess.STDOUT, text=True)
    return p.returncode, p.stdout
sh("git -C /repo worktree remove --force %s" % WT)
rc, o = sh("git -C /repo worktree add --detach %s HEAD" % WT); assert rc == 0, o
ran = []
try:
    shutil.copy(os.path.join(out, "seed_demo.rs"), os.path.join(WT, "tests", "seed_demo.rs"))
    fl = ("--features " + feats) if feats else ""
    demo = "cargo test --offline %s --test seed_demo 2>&1 | grep -E '^test result|^test .* (ok|FAILED)|error' | head -20" % fl
    rc, before = sh(demo, WT); ran.append(demo)
    rc, o = sh("git apply %s" % os.path.join(out, "patch.diff"), WT); assert rc == 0, o
    rc, after = sh(demo, WT)
    suite = "cargo test --offline --lib --test cc --test auto_collect 2>&1 | grep -E '^test result|FAILED' | head"
    rc, s = sh(suite, WT); ran.append(suite)
    builds = "cargo build --offline --features weak-ptrs,cleaners 2>&1 | grep -cE '^error'; cargo build --offline --no-default-features --features std 2>&1 | grep -cE '^error'; cargo build --offline --no-default-features --features std,weak-ptrs,cleaners,auto-collect 2>&1 | grep -cE '^error'"
    rc, b = sh(builds, WT); ran.append(builds)
    demo_passes_before = "FAILED" not in before and "test result: ok" in before
    demo_fails_after = "FAILED" in after or "error" in after
    suite_ok = "FAILED" not in s and s.count("test result: ok") >= 3
    builds_ok = b.split() == ["0", "0", "0"]
    meta = {"name": name, "breaks_property": prop, "needs_to_manifest": needs, "demo_features": feats,
            "confirmed": {"demo_passes_without_change": demo_passes_before, "demo_fails_with_change": demo_fails_after,
                          "pinned_suite_passes_with_change": suite_ok, "compiles_all_feature_sets": builds_ok},
            "commands_run": ran, "demo_output_without": before[-400:], "demo_output_with": after[-600:], "suite_output_with": s[-300:]}
    d = os.path.join("/verif/seeded", name); os.makedirs(d, exist_ok=True)
    for f in ("patch.diff", "seed_demo.rs", "notes.md"):
        if os.path.exists(os.path.join(out, f)): shutil.copy(os.path.join(out, f), os.path.join(d, f))
    meta["expected_props"] = [prop]
    json.dump(meta, open(os.path.join(d, "meta.json"), "w"), indent=1)
    print(name, meta["confirmed"])
finally:
    sh("git -C /repo worktree remove --force %s" % WT)
