#!/usr/bin/env python3
"""Runs registered checks against seeded defects applied to /repo itself (apply, run, undo).
usage: seedrun.py [--tier quick|thorough] [--props C01,C02 | --all-props] NAME...   (NAME = directory under /verif/seeded; 'ALL' = every one)
Results are appended to /verif/seeded/results.json (name -> {prop: {rc, sig, wall}}).
The evidence files are rewritten by these runs: re-run the checks on the clean tree afterwards."""
import json, os, subprocess, sys, time
ROOT = os.path.dirname(os.path.dirname(os.path.abspath(__file__)))
SD = os.path.join(ROOT, "seeded")
ENV = dict(os.environ, CARGO_NET_OFFLINE="true", RUST_BACKTRACE="0")


def sh(cmd, cwd=None):
    p = subprocess.run(cmd, cwd=cwd, env=ENV, stdout=subprocess.PIPE, stderr=subprocess.STDOUT, text=True)
    return p.returncode, p.stdout


def main():
    args = sys.argv[1:]
    tier = "quick"
    props = None
    names = []
    i = 0
    while i < len(args):
        if args[i] == "--tier":
            tier = args[i + 1]; i += 2
        elif args[i] == "--props":
            props = args[i + 1].split(","); i += 2
        elif args[i] == "--all-props":
            props = ["C%02d" % k for k in range(1, 21)]; i += 1
        else:
            names.append(args[i]); i += 1
    if names == ["ALL"]:
        names = sorted(d for d in os.listdir(SD) if os.path.isdir(os.path.join(SD, d)))
    rc, out = sh(["git", "-C", "/repo", "status", "--porcelain", "--untracked-files=no"])
    assert out.strip() == "", "/repo is not clean: " + out
    rpath = os.path.join(SD, "results.json")
    results = json.load(open(rpath)) if os.path.exists(rpath) else {}
    for name in names:
        d = os.path.join(SD, name)
        meta = json.load(open(os.path.join(d, "meta.json")))
        plist = props or meta.get("expected_props") or [meta["breaks_property"]]
        rc, out = sh(["git", "-C", "/repo", "apply", os.path.join(d, "patch.diff")])
        if rc != 0:
            print(name, "patch does not apply:", out[-300:]); continue
        try:
            entry = results.setdefault(name, {})
            for p in plist:
                t0 = time.time()
                rc, out = sh([os.path.join(ROOT, "check"), p, "--tier", tier], cwd=ROOT)
                sigs = [l[len("signature: "):] for l in out.splitlines() if l.startswith("signature:")]
                entry[p + ("" if tier == "quick" else "@" + tier)] = {"rc": rc, "sig": sigs[:3], "wall": round(time.time() - t0, 1), "tail": out[-400:] if rc not in (0, 1) else ""}
                print(name, p, tier, "rc=%d" % rc, sigs[:2], "%.0fs" % (time.time() - t0), flush=True)
        finally:
            sh(["git", "-C", "/repo", "checkout", "--", "."])
        json.dump(results, open(rpath, "w"), indent=1, sort_keys=True)


if __name__ == "__main__":
    main()
