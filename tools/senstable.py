#!/usr/bin/env python3
"""Writes the sensitivity tables of DESIGN.md section 12 (between the SENS markers) from
seeded/planted_mutants_results.json (tools/mutants.py), seeded/results.json (tools/seedrun.py, runs
against /repo itself) and seeded/results_scratch.json (tools/mutants.py --seeded, scratch copy)."""
import json, os
ROOT = os.path.dirname(os.path.dirname(os.path.abspath(__file__)))
SD = os.path.join(ROOT, "seeded")

def load(p):
    p = os.path.join(SD, p)
    return json.load(open(p)) if os.path.exists(p) else {}

def short(sig):
    s = sig.replace("signature: ", "")
    return (s[:58] + "..") if len(s) > 60 else s

out = []
seed_direct = load("results.json")
seed_scratch = load("results_scratch.json")
out.append("### 12.1 Independently seeded defects (written by sub-agents from the property text only)\n")
out.append("Each was confirmed in a scratch worktree (`tools/seedcheck.py`: demonstration passes without and fails with the change,")
out.append("pinned suite green with it, all feature sets compile). `caught by` = registered quick tiers that exit 1 with the change applied.\n")
out.append("| seeded change | needs, to manifest | caught by (signature) |")
out.append("|---|---|---|")
names = sorted(d for d in os.listdir(SD) if os.path.isdir(os.path.join(SD, d)))
n_caught = 0
for n in names:
    meta = json.load(open(os.path.join(SD, n, "meta.json")))
    res = {}
    sc = seed_scratch.get("seeded-" + n, {}).get("checks", {})
    for p, r in sc.items():
        res[p] = (r["rc"], r["sig"][0] if r["sig"] else "")
    for p, r in seed_direct.get(n, {}).items():
        if "@" in p:
            continue
        if p not in res or r["rc"] == 1:
            res[p] = (r["rc"], r["sig"][0] if r["sig"] else "")
    caught = ["%s (`%s`)" % (p, short(s)) for p, (rc, s) in sorted(res.items()) if rc == 1]
    missed = [p for p, (rc, s) in sorted(res.items()) if rc != 1]
    if caught:
        n_caught += 1
    cell = "; ".join(caught) if caught else "**not caught**"
    if missed:
        cell += " - not by " + ", ".join(missed)
    out.append("| `%s` | %s | %s |" % (n, meta["needs_to_manifest"].replace("|", "/")[:230], cell))
out.append("\n%d of %d seeded defects are caught by the check of the property they were written against (or, where noted, by a sibling check).\n" % (n_caught, len(names)))

mut = load("planted_mutants_results.json")
out.append("### 12.2 Planted mutants (`tools/mutants.py`)\n")
out.append("Small source edits planted by the author of the checks. `suite` = the pinned tests still pass with the edit (only those")
out.append("rows are changes the tests cannot see; the others are kept as sanity checks of the oracles).\n")
out.append("| mutant | suite | caught by | not caught by |")
out.append("|---|---|---|---|")
for k, v in mut.items():
    if "error" in v:
        continue
    cb = ["%s (`%s`)" % (p, short(c["sig"][0]) if c["sig"] else "") for p, c in v["checks"].items() if c["rc"] == 1]
    miss = [p for p, c in v["checks"].items() if c["rc"] != 1]
    out.append("| `%s` | %s | %s | %s |" % (k, "green" if v.get("suite_passes") else "red", "; ".join(cb) or "-", ", ".join(miss) or "-"))
text = "\n".join(out)
dp = os.path.join(ROOT, "DESIGN.md")
s = open(dp).read()
a, b = s.index("<!-- SENS-BEGIN -->"), s.index("<!-- SENS-END -->")
s = s[:a] + "<!-- SENS-BEGIN -->\n" + text + "\n" + s[b:]
open(dp, "w").write(s)
print("tables written:", len(names), "seeded,", len(mut), "mutants")
