#!/usr/bin/env python3
"""Generates MANIFEST.json from lib/plan.py (single source of truth for the claimed checks)."""
import json, os, sys
ROOT = os.path.dirname(os.path.dirname(os.path.abspath(__file__)))
sys.path.insert(0, os.path.join(ROOT, "lib"))
from plan import PLAN, LEVEL, CLAIMS, NOT_APPLICABLE, ENGINES  # noqa

checks = []
for pid in sorted(PLAN):
    c = CLAIMS[pid]
    checks.append({
        "property_id": pid,
        "quick_cmd": "./check %s --tier quick" % pid,
        "thorough_cmd": "./check %s --tier thorough" % pid,
        "evidence_file": "/verif/evidence/%s.json" % pid,
        "replay_cmd_template": "./check %s --replay {path}" % pid,
        "engine": c["engine"],
        "level_claimed": {"category": LEVEL.get(pid, "exploration"), "text": c["text"], "design_ref": "DESIGN.md section 5, %s" % pid},
        "level_note": c["note"],
        "technique": c["technique"],
    })
manifest = {
    "version": 1,
    "setup_cmd": "./check --setup",
    "hooks": {
        "guard": "cargo feature `verif` of rust-cc",
        "enable": "the harness crate /verif/harness depends on rust-cc by path (/repo) with features = [\"std\", \"verif\", ...]; ./check rebuilds it with cargo before every run",
        "baseline_off_cmd": "cd /repo && cargo test --workspace --no-fail-fast --offline",
        "source_commits": ["d059fa4"],
        "add_only": True,
    },
    "engines": ENGINES,
    "checks": checks,
    "notes": "Property-based testing and fuzzing only. Fix commits in /repo: 11dfdb4 (D1), 6972ff0 (D2), af8d73e (D3); see KNOWN_FINDINGS.txt and DESIGN.md section 4.",
    "not_applicable": NOT_APPLICABLE,
}
json.dump(manifest, open(os.path.join(ROOT, "MANIFEST.json"), "w"), indent=1)
print("wrote MANIFEST.json with", len(checks), "checks")
