//! Layout grid (C03, C13, C20): payload types over a grid of alignments x sizes (zero-sized and
//! over-aligned included), each exercised by short generated programs. Oracles: allocator rules
//! (every release hits a live block with the layout it was allocated with, once), drop-once
//! counters, address laws of Deref/AsRef/Borrow/ptr_eq, try_unwrap uniqueness.

use std::borrow::Borrow;
use std::cell::{Cell, RefCell};

use proptest::prelude::*;
use serde::{Deserialize, Serialize};

use rust_cc::{collect_cycles, state, verif, Cc, Context, Finalize, Trace};
#[cfg(feature = "weak-ptrs")]
use rust_cc::weak::Weak;

use crate::alloc::{self, Bracket};
use crate::world::Violation;

thread_local! {
    static DROPS: RefCell<Vec<u32>> = const { RefCell::new(Vec::new()) };
    static FINS: RefCell<Vec<u32>> = const { RefCell::new(Vec::new()) };
    static BAD_PATTERN: Cell<u32> = const { Cell::new(0) };
}

pub trait Payload: Trace + Sized + 'static {
    const ALIGN: usize;
    const SIZE: usize;
    const LINKED: bool;
    fn make(id: u32) -> Self;
    fn id(&self) -> u32;
    fn intact(&self) -> bool;
    fn link(&self) -> Option<&RefCell<Option<Cc<Self>>>>;
}

fn note_drop(id: u32, ok: bool) {
    DROPS.with(|d| {
        let mut d = d.borrow_mut();
        if (id as usize) < d.len() {
            d[id as usize] += 1;
        }
    });
    if !ok {
        BAD_PATTERN.with(|b| b.set(b.get() + 1));
    }
}

fn note_fin(id: u32) {
    FINS.with(|d| {
        let mut d = d.borrow_mut();
        if (id as usize) < d.len() {
            d[id as usize] += 1;
        }
    });
}

macro_rules! align_family {
    ($plain:ident, $linked:ident, $align:literal) => {
        /// no pointer field; zero-sized when S == 0 (identity is then unknown: id 0)
        #[repr(align($align))]
        pub struct $plain<const S: usize> {
            bytes: [u8; S],
        }
        unsafe impl<const S: usize> Trace for $plain<S> {
            fn trace(&self, _: &mut Context<'_>) {}
        }
        impl<const S: usize> Finalize for $plain<S> {
            fn finalize(&self) {
                note_fin(self.id());
            }
        }
        impl<const S: usize> Drop for $plain<S> {
            fn drop(&mut self) {
                note_drop(self.id(), self.intact());
            }
        }
        impl<const S: usize> Payload for $plain<S> {
            const ALIGN: usize = $align;
            const SIZE: usize = S;
            const LINKED: bool = false;
            fn make(id: u32) -> Self {
                let mut bytes = [0u8; S];
                for (i, b) in bytes.iter_mut().enumerate() {
                    *b = (id as u8).wrapping_mul(31).wrapping_add(i as u8) | 1;
                }
                if S > 0 {
                    bytes[0] = id as u8;
                }
                Self { bytes }
            }
            fn id(&self) -> u32 {
                if S > 0 { self.bytes[0] as u32 } else { 0 }
            }
            fn intact(&self) -> bool {
                let id = self.id() as u8;
                self.bytes.iter().enumerate().skip(1).all(|(i, b)| *b == id.wrapping_mul(31).wrapping_add(i as u8) | 1)
            }
            fn link(&self) -> Option<&RefCell<Option<Cc<Self>>>> {
                None
            }
        }

        #[repr(align($align))]
        pub struct $linked<const S: usize> {
            bytes: [u8; S],
            id: u32,
            link: RefCell<Option<Cc<Self>>>,
        }
        unsafe impl<const S: usize> Trace for $linked<S> {
            fn trace(&self, ctx: &mut Context<'_>) {
                self.link.trace(ctx);
            }
        }
        impl<const S: usize> Finalize for $linked<S> {
            fn finalize(&self) {
                note_fin(self.id);
            }
        }
        impl<const S: usize> Drop for $linked<S> {
            fn drop(&mut self) {
                note_drop(self.id, self.intact());
            }
        }
        impl<const S: usize> Payload for $linked<S> {
            const ALIGN: usize = $align;
            const SIZE: usize = S;
            const LINKED: bool = true;
            fn make(id: u32) -> Self {
                let mut bytes = [0u8; S];
                for (i, b) in bytes.iter_mut().enumerate() {
                    *b = (id as u8).wrapping_mul(31).wrapping_add(i as u8) | 1;
                }
                Self { bytes, id, link: RefCell::new(None) }
            }
            fn id(&self) -> u32 {
                self.id
            }
            fn intact(&self) -> bool {
                let id = self.id as u8;
                self.id < 64 && self.bytes.iter().enumerate().all(|(i, b)| *b == id.wrapping_mul(31).wrapping_add(i as u8) | 1)
            }
            fn link(&self) -> Option<&RefCell<Option<Cc<Self>>>> {
                Some(&self.link)
            }
        }
    };
}

align_family!(P1, L1, 1);
align_family!(P2, L2, 2);
align_family!(P4, L4, 4);
align_family!(P8, L8, 8);
align_family!(P16, L16, 16);
align_family!(P32, L32, 32);
align_family!(P64, L64, 64);
align_family!(P128, L128, 128);
align_family!(P256, L256, 256);
align_family!(P512, L512, 512);
align_family!(P1024, L1024, 1024);
align_family!(P2048, L2048, 2048);
align_family!(P4096, L4096, 4096);

pub const ALIGNS: [usize; 13] = [1, 2, 4, 8, 16, 32, 64, 128, 256, 512, 1024, 2048, 4096];
pub const SIZES: [usize; 8] = [0, 1, 7, 8, 24, 100, 1000, 4096];

#[derive(Clone, Debug, PartialEq, Eq, Hash, Serialize, Deserialize)]
pub enum GOp {
    New,
    NewCyclic,
    Clone(u8),
    Drop(u8),
    /// store a clone of handle `b` into the link of the object of handle `a` (linked types only)
    Link(u8, u8),
    Unlink(u8),
    Collect,
    Downgrade(u8),
    WeakDrop(u8),
    Upgrade(u8),
    TryUnwrap(u8),
}

#[derive(Clone, Debug, PartialEq, Eq, Hash, Serialize, Deserialize)]
pub struct GCase {
    /// index into ALIGNS
    pub align: u8,
    /// index into SIZES
    pub size: u8,
    pub linked: bool,
    pub ops: Vec<GOp>,
}

impl GCase {
    pub fn hash64(&self) -> u64 {
        use std::hash::{Hash, Hasher};
        let mut h = crate::case::Fnv(0xcbf29ce484222325);
        self.hash(&mut h);
        h.finish()
    }
    pub fn point(&self) -> u64 {
        (self.align as u64) * 100 + (self.size as u64) * 2 + self.linked as u64
    }
}

pub fn strategy() -> BoxedStrategy<GCase> {
    let op = prop_oneof![
        6 => Just(GOp::New),
        2 => Just(GOp::NewCyclic),
        5 => any::<u8>().prop_map(GOp::Clone),
        7 => any::<u8>().prop_map(GOp::Drop),
        5 => (any::<u8>(), any::<u8>()).prop_map(|(a, b)| GOp::Link(a, b)),
        1 => any::<u8>().prop_map(GOp::Unlink),
        3 => Just(GOp::Collect),
        3 => any::<u8>().prop_map(GOp::Downgrade),
        2 => any::<u8>().prop_map(GOp::WeakDrop),
        3 => any::<u8>().prop_map(GOp::Upgrade),
        3 => any::<u8>().prop_map(GOp::TryUnwrap),
    ];
    (0u8..13, 0u8..8, any::<bool>(), prop::collection::vec(op, 1..=24))
        .prop_map(|(align, size, linked, ops)| GCase { align, size, linked, ops })
        .boxed()
}

#[derive(Default)]
pub struct GResult {
    pub violations: Vec<Violation>,
    pub collector_freed: u32,
    pub rc_freed: u32,
    pub unwrap_ok: u32,
    pub unwrap_err: u32,
    pub log: Vec<String>,
}

struct ObjM {
    addr: usize,
    box_addr: usize,
    alive: bool,
    moved: bool,
    link: Option<usize>,
}

fn vio(r: &mut GResult, props: &[&str], sig: &str, detail: String) {
    if r.violations.len() < 16 {
        r.violations.push(Violation { props: props.iter().map(|s| s.to_string()).collect(), rule: sig.split('/').next().unwrap().into(), sig: sig.into(), detail, op: -1, hard: false });
    }
}

fn pick<T>(v: &[T], sel: u8) -> Option<usize> {
    if v.is_empty() {
        None
    } else {
        Some((sel as usize * v.len()) >> 8)
    }
}

pub fn run_typed<T: Payload>(case: &GCase, logging: bool) -> GResult {
    let mut r = GResult::default();
    #[cfg(feature = "auto-collect")]
    let _ = rust_cc::config::config(|c| c.set_auto_collect(false));
    DROPS.with(|d| *d.borrow_mut() = vec![0; 64]);
    FINS.with(|d| *d.borrow_mut() = vec![0; 64]);
    BAD_PATTERN.with(|b| b.set(0));
    let zst = std::mem::size_of::<T>() == 0;
    let mut objs: Vec<ObjM> = Vec::new();
    let mut handles: Vec<(usize, Cc<T>)> = Vec::new();
    #[cfg(feature = "weak-ptrs")]
    let mut weaks: Vec<(usize, Weak<T>)> = Vec::new();
    let mut loose: Vec<T> = Vec::new();

    macro_rules! check_handle {
        ($r:expr, $oid:expr, $cc:expr) => {{
            let cc: &Cc<T> = $cc;
            let o = &objs[$oid];
            let p1 = &**cc as *const T as usize;
            let p2 = <Cc<T> as AsRef<T>>::as_ref(cc) as *const T as usize;
            let p3 = <Cc<T> as Borrow<T>>::borrow(cc) as *const T as usize;
            if p1 != p2 || p1 != p3 {
                vio($r, &["C20"], "deref-asref-borrow-differ", format!("deref {:#x} as_ref {:#x} borrow {:#x}", p1, p2, p3));
            }
            if p1 % T::ALIGN != 0 {
                vio($r, &["C20"], "misaligned", format!("payload address {:#x} is not a multiple of {}", p1, T::ALIGN));
            }
            if p1 != o.addr {
                vio($r, &["C20"], "address-changed", format!("payload address {:#x}, was {:#x} at creation", p1, o.addr));
            }
            let snap = verif::object_snapshot(cc);
            match alloc::block_at(snap.box_addr) {
                Some(b) if b.live => {
                    if p1 < b.addr || p1 + std::mem::size_of::<T>() > b.addr + b.size {
                        vio($r, &["C20", "C03"], "payload-outside-block", format!("payload {:#x}+{} outside its block {:#x}+{}", p1, std::mem::size_of::<T>(), b.addr, b.size));
                    }
                    if b.align < T::ALIGN {
                        vio($r, &["C03", "C20"], "block-underaligned", format!("block allocated with alignment {} for a payload aligned to {}", b.align, T::ALIGN));
                    }
                }
                _ => vio($r, &["C01", "C03"], "held-box-not-live", format!("allocation {:#x} of a held object is not live", snap.box_addr)),
            }
            if !zst && !(&**cc).intact() {
                vio($r, &["C01", "C20"], "value-damaged", format!("value of object {} is damaged", $oid));
            }
            if !zst && (&**cc).id() as usize != $oid {
                vio($r, &["C20"], "wrong-object", format!("handle of object {} derefs to object {}", $oid, (&**cc).id()));
            }
        }};
    }

    for op in &case.ops {
        if logging {
            r.log.push(format!("== {:?}", op));
        }
        match op {
            GOp::New | GOp::NewCyclic => {
                if objs.len() >= 6 {
                    continue;
                }
                let id = objs.len();
                #[cfg(feature = "weak-ptrs")]
                let cyclic = matches!(op, GOp::NewCyclic);
                #[cfg(not(feature = "weak-ptrs"))]
                let cyclic = false;
                let cc: Cc<T> = {
                    let _b = Bracket::open();
                    if cyclic {
                        #[cfg(feature = "weak-ptrs")]
                        {
                            Cc::new_cyclic(|w: &Weak<T>| {
                                if w.upgrade().is_some() || w.strong_count() != 0 {
                                    BAD_PATTERN.with(|b| b.set(b.get() + 1000));
                                }
                                T::make(id as u32)
                            })
                        }
                        #[cfg(not(feature = "weak-ptrs"))]
                        {
                            Cc::new(T::make(id as u32))
                        }
                    } else {
                        Cc::new(T::make(id as u32))
                    }
                };
                let snap = verif::object_snapshot(&cc);
                objs.push(ObjM { addr: &*cc as *const T as usize, box_addr: snap.box_addr, alive: true, moved: false, link: None });
                handles.push((id, cc));
            }
            GOp::Clone(s) => {
                if let Some(i) = pick(&handles, *s) {
                    let c = handles[i].1.clone();
                    let oid = handles[i].0;
                    handles.push((oid, c));
                }
            }
            GOp::Drop(s) => {
                if let Some(i) = pick(&handles, *s) {
                    let (_, c) = handles.remove(i);
                    let _b = Bracket::open();
                    drop(c);
                }
            }
            GOp::Link(a, b) => {
                if let (Some(i), Some(j)) = (pick(&handles, *a), pick(&handles, *b)) {
                    let target = handles[j].1.clone();
                    let toid = handles[j].0;
                    let oid = handles[i].0;
                    if let Some(l) = handles[i].1.link() {
                        let old = l.replace(Some(target));
                        objs[oid].link = Some(toid);
                        let _b = Bracket::open();
                        drop(old);
                    }
                }
            }
            GOp::Unlink(a) => {
                if let Some(i) = pick(&handles, *a) {
                    let oid = handles[i].0;
                    if let Some(l) = handles[i].1.link() {
                        let old = l.replace(None);
                        objs[oid].link = None;
                        let _b = Bracket::open();
                        drop(old);
                    }
                }
            }
            GOp::Collect => {
                let _b = Bracket::open();
                collect_cycles();
            }
            GOp::Downgrade(s) => {
                #[cfg(feature = "weak-ptrs")]
                if let Some(i) = pick(&handles, *s) {
                    let w = {
                        let _b = Bracket::open();
                        handles[i].1.downgrade()
                    };
                    weaks.push((handles[i].0, w));
                }
                let _ = s;
            }
            GOp::WeakDrop(s) => {
                #[cfg(feature = "weak-ptrs")]
                if let Some(i) = pick(&weaks, *s) {
                    let (_, w) = weaks.remove(i);
                    let _b = Bracket::open();
                    drop(w);
                }
                let _ = s;
            }
            GOp::Upgrade(s) => {
                #[cfg(feature = "weak-ptrs")]
                if let Some(i) = pick(&weaks, *s) {
                    let oid = weaks[i].0;
                    let up = weaks[i].1.upgrade();
                    let alive = objs[oid].alive && !objs[oid].moved;
                    match up {
                        Some(c) => {
                            if !alive {
                                vio(&mut r, &["C08", "C01"], "upgrade-some-on-dead", format!("upgrade succeeded for dead object {}", oid));
                                std::mem::forget(c);
                            } else {
                                handles.push((oid, c));
                            }
                        }
                        None => {
                            if alive && handles.iter().any(|h| h.0 == oid) {
                                vio(&mut r, &["C08"], "upgrade-none-on-live", format!("upgrade failed for live object {}", oid));
                            }
                        }
                    }
                }
                let _ = s;
            }
            GOp::TryUnwrap(s) => {
                if let Some(i) = pick(&handles, *s) {
                    let (oid, c) = handles.remove(i);
                    let links_to = objs.iter().filter(|o| o.alive && !o.moved && o.link == Some(oid)).count() + loose_links::<T>(&loose, oid);
                    let n = handles.iter().filter(|h| h.0 == oid).count() + 1 + links_to;
                    let baddr = objs[oid].box_addr;
                    let res = {
                        let _b = Bracket::open();
                        c.try_unwrap()
                    };
                    match res {
                        Ok(v) => {
                            r.unwrap_ok += 1;
                            if n != 1 {
                                vio(&mut r, &["C13"], "try-unwrap-ok-not-unique", format!("Ok with {} pointers", n));
                            }
                            if !zst && (!v.intact() || v.id() as usize != oid) {
                                vio(&mut r, &["C13"], "try-unwrap-value-changed", format!("value moved out of object {} is damaged", oid));
                            }
                            if (&v as *const T as usize) % T::ALIGN != 0 {
                                vio(&mut r, &["C20"], "moved-value-misaligned", "moved-out value misaligned".into());
                            }
                            if alloc::block_at(baddr).map_or(false, |b| b.live) {
                                vio(&mut r, &["C13", "C03"], "try-unwrap-box-not-released", format!("allocation of object {} still live after Ok", oid));
                            }
                            objs[oid].moved = true;
                            loose.push(v);
                        }
                        Err(c) => {
                            r.unwrap_err += 1;
                            if n == 1 {
                                vio(&mut r, &["C13"], "try-unwrap-err-unique", "Err for a unique pointer".to_string());
                            }
                            handles.push((oid, c));
                        }
                    }
                }
            }
        }
        // ---- after every operation ---------------------------------------------------
        for v in alloc::take_violations() {
            let what = if v.kind == 1 { "double-free" } else { "dealloc-layout-mismatch" };
            vio(&mut r, &["C03"], what, format!("{} of block {:#x} (allocated {}/{}, released {}/{})", what, v.addr, v.size, v.align, v.got_size, v.got_align));
        }
        // shadow liveness: an object is alive iff reachable ... here simply: counts
        let drops: Vec<u32> = DROPS.with(|d| d.borrow().clone());
        for (oid, o) in objs.iter_mut().enumerate() {
            if zst {
                break;
            }
            if drops[oid] > 1 {
                vio(&mut r, &["C03"], "dropped-twice", format!("object {} dropped {} times", oid, drops[oid]));
            }
            if drops[oid] >= 1 && o.alive {
                o.alive = false;
                let held = handles.iter().any(|h| h.0 == oid);
                if held && !o.moved {
                    vio(&mut r, &["C01"], "drop-of-held-object", format!("object {} was dropped while a handle exists", oid));
                }
                if !o.moved && alloc::block_at(o.box_addr).map_or(false, |b| b.live) {
                    vio(&mut r, &["C03"], "dropped-but-not-released", format!("object {} dropped but its allocation is live", oid));
                }
            }
            if drops[oid] == 0 && !o.moved && !alloc::block_at(o.box_addr).map_or(true, |b| b.live) {
                vio(&mut r, &["C03", "C01"], "released-before-drop", format!("allocation of object {} released, value never dropped", oid));
            }
        }
        if BAD_PATTERN.with(|b| b.get()) != 0 {
            vio(&mut r, &["C03", "C01"], "destructor-saw-damaged-value", format!("a destructor or closure observed a damaged value (code {})", BAD_PATTERN.with(|b| b.get())));
            BAD_PATTERN.with(|b| b.set(0));
        }
        // a handle of a dropped (not moved) object must not be touched any more
        let mut k = 0;
        while k < handles.len() {
            if !zst && !objs[handles[k].0].alive {
                let (_, c) = handles.remove(k);
                std::mem::forget(c);
            } else {
                k += 1;
            }
        }
        for (oid, cc) in &handles {
            check_handle!(&mut r, *oid, cc);
        }
        for i in 0..handles.len() {
            for j in 0..handles.len() {
                let same = handles[i].0 == handles[j].0;
                if Cc::ptr_eq(&handles[i].1, &handles[j].1) != same {
                    vio(&mut r, &["C20"], "ptr-eq", format!("ptr_eq(handle of {}, handle of {}) = {}", handles[i].0, handles[j].0, !same));
                }
            }
        }
        for (oid, cc) in &handles {
            let n = handles.iter().filter(|h| h.0 == *oid).count() + objs.iter().filter(|o| o.alive && !o.moved && o.link == Some(*oid)).count() + loose_links::<T>(&loose, *oid);
            if cc.strong_count() as usize != n {
                vio(&mut r, &["C04"], "strong-count", format!("strong_count() of object {} is {}, {} pointers exist", oid, cc.strong_count(), n));
            }
        }
    }
    // epilogue
    {
        let _b = Bracket::open();
        drop(handles);
        drop(loose);
        collect_cycles();
        collect_cycles();
        #[cfg(feature = "weak-ptrs")]
        {
            for (oid, w) in &weaks {
                if w.upgrade().is_some() {
                    vio(&mut r, &["C08"], "upgrade-after-release", format!("weak to object {} upgrades after everything was released", oid));
                }
            }
            drop(weaks);
        }
    }
    for v in alloc::take_violations() {
        let what = if v.kind == 1 { "double-free" } else { "dealloc-layout-mismatch" };
        vio(&mut r, &["C03"], what, format!("{} of block {:#x} (allocated {}/{}, released {}/{})", what, v.addr, v.size, v.align, v.got_size, v.got_align));
    }
    let drops: Vec<u32> = DROPS.with(|d| d.borrow().clone());
    let fins: Vec<u32> = FINS.with(|d| d.borrow().clone());
    if zst {
        if drops[0] as usize != objs.len() {
            vio(&mut r, &["C03"], "zst-drop-count", format!("{} zero-sized objects created, {} dropped", objs.len(), drops[0]));
        }
    } else {
        for (oid, o) in objs.iter().enumerate() {
            if drops[oid] != 1 {
                vio(&mut r, &["C03", "C02"], "drop-count-at-end", format!("object {} dropped {} times by the end", oid, drops[oid]));
            }
            if cfg!(feature = "finalization") && !o.moved && fins[oid] != 1 {
                vio(&mut r, &["C05"], "finalize-count-at-end", format!("object {} finalized {} times by the end", oid, fins[oid]));
            }
            if !cfg!(feature = "finalization") && fins[oid] != 0 {
                vio(&mut r, &["C05"], "finalize-without-feature", format!("object {} finalized with the feature disabled", oid));
            }
        }
    }
    for o in &objs {
        if alloc::block_at(o.box_addr).map_or(false, |b| b.live) {
            vio(&mut r, &["C03", "C02"], "box-live-at-end", format!("allocation {:#x} still live at the end", o.box_addr));
        }
    }
    if state::allocated_bytes().unwrap_or(1) != 0 {
        vio(&mut r, &["C11", "C02"], "bytes-at-end", format!("allocated_bytes() = {} at the end", state::allocated_bytes().unwrap_or(0)));
    }
    r
}

fn loose_links<T: Payload>(loose: &[T], oid: usize) -> usize {
    loose
        .iter()
        .filter(|v| v.link().map_or(false, |l| l.borrow().as_ref().map_or(false, |c| std::mem::size_of::<T>() != 0 && (&**c).id() as usize == oid)))
        .count()
}

macro_rules! dispatch_size {
    ($fam:ident, $case:expr, $log:expr) => {
        match $case.size {
            0 => run_typed::<$fam<0>>($case, $log),
            1 => run_typed::<$fam<1>>($case, $log),
            2 => run_typed::<$fam<7>>($case, $log),
            3 => run_typed::<$fam<8>>($case, $log),
            4 => run_typed::<$fam<24>>($case, $log),
            5 => run_typed::<$fam<100>>($case, $log),
            6 => run_typed::<$fam<1000>>($case, $log),
            _ => run_typed::<$fam<4096>>($case, $log),
        }
    };
}

macro_rules! dispatch_align {
    ($case:expr, $log:expr, $( $idx:literal => ($p:ident, $l:ident) ),*) => {
        match ($case.align, $case.linked) {
            $( ($idx, false) => dispatch_size!($p, $case, $log), ($idx, true) => dispatch_size!($l, $case, $log), )*
            _ => GResult::default(),
        }
    };
}

pub fn run(case: &GCase, logging: bool) -> GResult {
    dispatch_align!(case, logging,
        0 => (P1, L1), 1 => (P2, L2), 2 => (P4, L4), 3 => (P8, L8), 4 => (P16, L16), 5 => (P32, L32), 6 => (P64, L64),
        7 => (P128, L128), 8 => (P256, L256), 9 => (P512, L512), 10 => (P1024, L1024), 11 => (P2048, L2048), 12 => (P4096, L4096))
}

pub fn run_on_thread(case: &GCase, logging: bool) -> GResult {
    let c = case.clone();
    let r = std::thread::Builder::new().stack_size(4 << 20).spawn(move || run(&c, logging)).expect("spawn").join();
    alloc::end_case();
    r.unwrap_or_else(|_| {
        let mut r = GResult::default();
        r.violations.push(Violation {
            props: vec!["C03".into(), "C13".into(), "C20".into()],
            rule: "panic".into(),
            sig: format!("case-panicked/{}", crate::engine::last_panic_loc()),
            detail: "the layout program panicked".into(),
            op: -1,
            hard: true,
        });
        r
    })
}
