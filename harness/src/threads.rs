//! C19: collectors of different threads are independent; thread teardown is safe.
//!
//! (a) Differential: generated panic-free heap programs, one per thread (2..16 threads), run
//!     concurrently (with yields at generated operation boundaries) must produce exactly the
//!     observable result of the same program run alone. The comparison is schedule-independent.
//! (b) Teardown: generated thread-exit scenarios (thread-locals holding Ccs / Weaks / cleanables,
//!     registered before or after the collector's own thread-local, with objects buffered / in
//!     garbage cycles / uniquely owned) run in a child process that must exit cleanly.

use std::cell::{Cell, RefCell};
use std::sync::atomic::{AtomicU32, Ordering};
use std::sync::{Arc, Barrier};

use proptest::prelude::*;
use serde::{Deserialize, Serialize};

use rust_cc::{collect_cycles, Cc, Context, Finalize, Trace};
#[cfg(feature = "cleaners")]
use rust_cc::cleaners::{Cleanable, Cleaner};
#[cfg(feature = "weak-ptrs")]
use rust_cc::weak::Weak;

use crate::case::*;
use crate::gen;
use crate::run::{execute, RunOpts};
use crate::world::{CaseResult, Violation, MAX_IN_COLLECT};

#[derive(Clone, Debug, PartialEq, Eq, Hash, Serialize, Deserialize)]
pub struct TCase {
    pub programs: Vec<Case>,
    /// per thread: bit i = yield before operation i
    pub yields: Vec<u64>,
}

impl TCase {
    pub fn hash64(&self) -> u64 {
        use std::hash::{Hash, Hasher};
        let mut h = Fnv(0xcbf29ce484222325);
        self.hash(&mut h);
        h.finish()
    }
}

pub fn strategy() -> BoxedStrategy<TCase> {
    let mut p = gen::profile("general");
    p.max_ops = 25;
    let one = gen::case(&p, 0).prop_map(|(c, _)| c);
    (2usize..=16)
        .prop_flat_map(move |t| (prop::collection::vec(one.clone(), t), prop::collection::vec(any::<u64>(), t)))
        .prop_map(|(programs, yields)| TCase { programs, yields })
        .boxed()
}

#[derive(Default)]
pub struct TResult {
    pub violations: Vec<Violation>,
    pub overlapped_collections: bool,
    pub threads: usize,
}

fn summary(r: &CaseResult) -> (Vec<String>, Vec<String>, String) {
    let vs: Vec<String> = r.violations.iter().map(|v| v.sig.clone()).collect();
    let st = serde_json::to_string(&r.stats).unwrap();
    (vs, r.log.clone(), st)
}

pub fn run(case: &TCase) -> TResult {
    let mut out = TResult { threads: case.programs.len(), ..TResult::default() };
    let opts = RunOpts { strict: false, logging: true, known: Vec::new(), quiesce_mid: false, timeout_s: 30, persist: false, prop: "C19".into(), config: String::new() };
    // solo runs
    let mut solo = Vec::new();
    for p in &case.programs {
        let (p2, o2) = (p.clone(), opts.clone());
        let r = std::thread::Builder::new().stack_size(4 << 20).spawn(move || execute(&p2, &o2, None, &|_| {})).expect("spawn").join();
        crate::alloc::end_case();
        match r {
            Ok(r) => solo.push(r),
            Err(_) => {
                out.violations.push(Violation { props: vec!["HARNESS".into()], rule: "solo-panic".into(), sig: format!("solo-run-panicked/{}", crate::engine::last_panic_loc()), detail: "solo run panicked".into(), op: -1, hard: true });
                return out;
            }
        }
    }
    // concurrent run
    MAX_IN_COLLECT.store(0, Ordering::SeqCst);
    let barrier = Arc::new(Barrier::new(case.programs.len()));
    let mut handles = Vec::new();
    for (i, p) in case.programs.iter().enumerate() {
        let (p2, o2, b, y) = (p.clone(), opts.clone(), barrier.clone(), case.yields[i]);
        handles.push(
            std::thread::Builder::new()
                .stack_size(4 << 20)
                .spawn(move || {
                    b.wait();
                    execute(&p2, &o2, None, &|k| {
                        if (y >> (k % 64)) & 1 == 1 {
                            std::thread::yield_now();
                        }
                    })
                })
                .expect("spawn"),
        );
    }
    let conc: Vec<_> = handles.into_iter().map(|h| h.join()).collect();
    crate::alloc::end_case();
    out.overlapped_collections = MAX_IN_COLLECT.load(Ordering::SeqCst) >= 2;
    for (i, r) in conc.into_iter().enumerate() {
        match r {
            Err(_) => out.violations.push(Violation {
                props: vec!["C19".into()],
                rule: "thread-panicked".into(),
                sig: format!("concurrent-run-panicked/{}", crate::engine::last_panic_loc().replace(' ', "_")),
                detail: format!("thread {} panicked when run concurrently (it did not when run alone)", i),
                op: -1,
                hard: true,
            }),
            Ok(r) => {
                let (a, b) = (summary(&solo[i]), summary(&r));
                if a != b {
                    let what = if a.0 != b.0 {
                        "violations"
                    } else if a.1 != b.1 {
                        "event-log"
                    } else {
                        "counters"
                    };
                    let first_diff = a.1.iter().zip(b.1.iter()).position(|(x, y)| x != y);
                    let detail = format!(
                        "thread {} of {}: observable result differs from the solo run ({}); first differing log line {:?}: solo {:?} vs concurrent {:?}; violations solo {:?} concurrent {:?}",
                        i, case.programs.len(), what, first_diff, first_diff.map(|k| a.1[k].clone()), first_diff.map(|k| b.1[k].clone()), a.0, b.0
                    );
                    out.violations.push(Violation { props: vec!["C19".into()], rule: "thread-interference".into(), sig: format!("thread-interference/{}", what), detail, op: -1, hard: false });
                }
            }
        }
    }
    out
}

// ------------------------------------------------------------------------------------------
// teardown scenarios (run in a child process)

pub static DEAD_CANARY: AtomicU32 = AtomicU32::new(0);
pub static TEARDOWN_DROPS: AtomicU32 = AtomicU32::new(0);

pub struct TNode {
    canary: Cell<u64>,
    next: RefCell<Option<Cc<TNode>>>,
    fin_action: u8,
    #[cfg(feature = "cleaners")]
    cleaner: Cleaner,
}

unsafe impl Trace for TNode {
    fn trace(&self, ctx: &mut Context<'_>) {
        if self.canary.get() != 0xA11CE {
            DEAD_CANARY.fetch_add(1, Ordering::SeqCst);
            return;
        }
        self.next.trace(ctx);
    }
}

impl Finalize for TNode {
    fn finalize(&self) {
        if self.canary.get() != 0xA11CE {
            DEAD_CANARY.fetch_add(1, Ordering::SeqCst);
            return;
        }
        match self.fin_action {
            1 => collect_cycles(),
            2 => drop(Cc::new(7u32)),
            3 => {
                let _ = rust_cc::state::buffered_objects_count();
                let _ = rust_cc::state::allocated_bytes();
                let _ = rust_cc::state::is_tracing();
            }
            _ => {}
        }
    }
}

impl Drop for TNode {
    fn drop(&mut self) {
        if self.canary.get() != 0xA11CE {
            DEAD_CANARY.fetch_add(1, Ordering::SeqCst);
        }
        self.canary.set(0xDEAD);
        TEARDOWN_DROPS.fetch_add(1, Ordering::SeqCst);
    }
}

fn tnode(fin_action: u8) -> Cc<TNode> {
    Cc::new(TNode {
        canary: Cell::new(0xA11CE),
        next: RefCell::new(None),
        fin_action,
        #[cfg(feature = "cleaners")]
        cleaner: Cleaner::new(),
    })
}

#[derive(Clone, Debug, PartialEq, Eq, Hash, Serialize, Deserialize)]
pub enum Content {
    /// uniquely owned object
    Unique,
    /// object that is also buffered (a clone was dropped)
    Buffered,
    /// member of a cycle, handle kept
    CycleHeld(u8),
    /// a weak pointer to an object kept elsewhere / already released
    WeakLive,
    WeakDead,
    /// a cleanable of a cleaner whose owner is kept in the same slot
    CleanableWithOwner,
    /// object with a registered cleaning action that touches the API
    CleanerAction,
    /// a value whose destructor (run by the thread-local's destructor) uses the collector API
    /// directly: 0 = collect_cycles(); 1 = collect_cycles() then create and release an object;
    /// 2 = collect_cycles() then query the state (is_tracing() must be false outside collections);
    /// 3 = collect_cycles() then try_unwrap of a unique Cc (must be Ok)
    Hook(u8),
}

#[derive(Clone, Debug, PartialEq, Eq, Hash, Serialize, Deserialize)]
pub struct Slot {
    /// registered (first touched) before the collector's own thread-local
    pub before_collector: bool,
    pub contents: Vec<Content>,
    pub fin_action: u8,
}

#[derive(Clone, Debug, PartialEq, Eq, Hash, Serialize, Deserialize)]
pub struct DCase {
    pub slots: Vec<Slot>,
    /// unreachable garbage cycles left buffered at exit
    pub garbage_cycles: u8,
    /// collect before exiting?
    pub collect_before_exit: bool,
    pub auto_collect: bool,
}

impl DCase {
    pub fn hash64(&self) -> u64 {
        use std::hash::{Hash, Hasher};
        let mut h = Fnv(0xcbf29ce484222325);
        self.hash(&mut h);
        h.finish()
    }
}

pub fn teardown_strategy() -> BoxedStrategy<DCase> {
    let content = prop_oneof![
        3 => Just(Content::Unique),
        3 => Just(Content::Buffered),
        3 => (1u8..4).prop_map(Content::CycleHeld),
        2 => Just(Content::WeakLive),
        2 => Just(Content::WeakDead),
        2 => Just(Content::CleanableWithOwner),
        2 => Just(Content::CleanerAction),
        3 => (0u8..4).prop_map(Content::Hook),
    ];
    let slot = (any::<bool>(), prop::collection::vec(content, 0..=4), 0u8..4).prop_map(|(before_collector, contents, fin_action)| Slot { before_collector, contents, fin_action });
    (prop::collection::vec(slot, 1..=3), 0u8..3, any::<bool>(), any::<bool>())
        .prop_map(|(slots, garbage_cycles, collect_before_exit, auto_collect)| DCase { slots, garbage_cycles, collect_before_exit, auto_collect })
        .boxed()
}

#[allow(dead_code)]
enum Item {
    Cc(Cc<TNode>),
    #[cfg(feature = "weak-ptrs")]
    Weak(Weak<TNode>),
    #[cfg(feature = "cleaners")]
    Cleanable(Cleanable),
    Hook(Hook),
}

pub static STATE_WRONG: AtomicU32 = AtomicU32::new(0);

pub struct Hook(u8);
impl Drop for Hook {
    fn drop(&mut self) {
        collect_cycles();
        match self.0 {
            1 => drop(Cc::new(7u32)),
            2 => {
                if rust_cc::state::is_tracing().unwrap_or(false) {
                    STATE_WRONG.fetch_add(1, Ordering::SeqCst);
                }
            }
            3 => {
                let c = Cc::new(9u32);
                if rust_cc::state::is_tracing().unwrap_or(false) || c.try_unwrap().is_err() {
                    STATE_WRONG.fetch_add(1, Ordering::SeqCst);
                }
            }
            _ => {}
        }
    }
}

thread_local! {
    static SLOT0: RefCell<Vec<Item>> = const { RefCell::new(Vec::new()) };
    static SLOT1: RefCell<Vec<Item>> = const { RefCell::new(Vec::new()) };
    static SLOT2: RefCell<Vec<Item>> = const { RefCell::new(Vec::new()) };
}

fn with_slot<R>(i: usize, f: impl FnOnce(&RefCell<Vec<Item>>) -> R) -> R {
    match i {
        0 => SLOT0.with(f),
        1 => SLOT1.with(f),
        _ => SLOT2.with(f),
    }
}

fn fill(slot: &Slot) -> Vec<Item> {
    let mut v = Vec::new();
    for c in &slot.contents {
        match c {
            Content::Unique => v.push(Item::Cc(tnode(slot.fin_action))),
            Content::Buffered => {
                let a = tnode(slot.fin_action);
                drop(a.clone());
                v.push(Item::Cc(a));
            }
            Content::CycleHeld(n) => {
                let nodes: Vec<Cc<TNode>> = (0..*n).map(|_| tnode(slot.fin_action)).collect();
                for i in 0..nodes.len() {
                    *nodes[i].next.borrow_mut() = Some(nodes[(i + 1) % nodes.len()].clone());
                }
                v.push(Item::Cc(nodes[0].clone()));
            }
            Content::WeakLive => {
                #[cfg(feature = "weak-ptrs")]
                {
                    let a = tnode(slot.fin_action);
                    v.push(Item::Weak(a.downgrade()));
                    v.push(Item::Cc(a));
                }
            }
            Content::WeakDead => {
                #[cfg(feature = "weak-ptrs")]
                {
                    let a = tnode(0);
                    v.push(Item::Weak(a.downgrade()));
                }
            }
            Content::CleanableWithOwner => {
                #[cfg(feature = "cleaners")]
                {
                    let a = tnode(slot.fin_action);
                    let c = a.cleaner.register(|| {
                        TEARDOWN_DROPS.fetch_add(100, Ordering::SeqCst);
                    });
                    v.push(Item::Cleanable(c));
                    v.push(Item::Cc(a));
                }
            }
            Content::Hook(k) => v.push(Item::Hook(Hook(*k))),
            Content::CleanerAction => {
                #[cfg(feature = "cleaners")]
                {
                    let a = tnode(slot.fin_action);
                    let other = tnode(0);
                    let w = other.downgrade();
                    let c = a.cleaner.register(move || {
                        let _ = w.upgrade();
                        drop(other);
                        collect_cycles();
                    });
                    drop(c);
                    v.push(Item::Cc(a));
                }
            }
        }
    }
    v
}

/// The body of the child process: one thread sets the scenario up and exits.
pub fn teardown_child(case: &DCase) -> i32 {
    let c = case.clone();
    let h = std::thread::Builder::new()
        .stack_size(2 << 20)
        .spawn(move || {
            let _b = crate::alloc::Bracket::open();
            #[cfg(feature = "auto-collect")]
            let _ = rust_cc::config::config(|cfg| cfg.set_auto_collect(c.auto_collect));
            // 1. register the slots that must outlive the collector's thread-local
            for (i, s) in c.slots.iter().enumerate() {
                if s.before_collector {
                    with_slot(i, |v| v.borrow_mut().clear());
                }
            }
            // 2. make sure the collector's own thread-local is registered now
            {
                let t = tnode(0);
                drop(t.clone());
                drop(t);
                collect_cycles();
            }
            // 3. the others are registered afterwards (destroyed first)
            for (i, s) in c.slots.iter().enumerate() {
                if !s.before_collector {
                    with_slot(i, |v| v.borrow_mut().clear());
                }
            }
            for (i, s) in c.slots.iter().enumerate() {
                let items = fill(s);
                with_slot(i, |v| v.borrow_mut().extend(items));
            }
            for _ in 0..c.garbage_cycles {
                let a = tnode(1);
                let b = tnode(3);
                *a.next.borrow_mut() = Some(b.clone());
                *b.next.borrow_mut() = Some(a.clone());
            }
            if c.collect_before_exit {
                collect_cycles();
            }
            // thread exits here: thread-local destructors run
        })
        .expect("spawn");
    let joined = h.join();
    let av = crate::alloc::take_violations();
    if joined.is_err() {
        eprintln!("teardown thread panicked: {}", crate::engine::last_panic_loc());
        return 3;
    }
    if !av.is_empty() {
        eprintln!("allocator violations during teardown: {:?}", av);
        return 4;
    }
    if DEAD_CANARY.load(Ordering::SeqCst) != 0 {
        eprintln!("a callback ran on a dead value during teardown");
        return 5;
    }
    if STATE_WRONG.load(Ordering::SeqCst) != 0 {
        eprintln!("after collect_cycles() in a thread-local destructor the collector claims to be tracing / refuses try_unwrap of a unique Cc");
        return 6;
    }
    0
}

/// Parent side: runs the scenario in a child process and judges its exit status.
pub fn run_teardown(case: &DCase) -> Vec<Violation> {
    let exe = std::env::current_exe().expect("current exe");
    let json = serde_json::to_string(case).unwrap();
    let out = std::process::Command::new(exe).arg("teardown-child").arg(&json).env("RUST_BACKTRACE", "0").output();
    let mut v = Vec::new();
    match out {
        Ok(o) => {
            if !o.status.success() {
                use std::os::unix::process::ExitStatusExt;
                let what = match (o.status.code(), o.status.signal()) {
                    (Some(c), _) => format!("exit-{}", c),
                    (None, Some(s)) => format!("signal-{}", s),
                    _ => "unknown".into(),
                };
                let err = String::from_utf8_lossy(&o.stderr);
                v.push(Violation {
                    props: vec!["C19".into()],
                    rule: "teardown".into(),
                    sig: format!("teardown-child/{}", what),
                    detail: format!("thread teardown scenario ended with {}: {}", what, err.chars().take(300).collect::<String>()),
                    op: -1,
                    hard: true,
                });
            }
        }
        Err(e) => v.push(Violation { props: vec!["HARNESS".into()], rule: "spawn".into(), sig: "teardown-spawn-failed".into(), detail: e.to_string(), op: -1, hard: true }),
    }
    v
}
