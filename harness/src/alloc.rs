//! Tracking / poisoning / quarantining global allocator.
//!
//! Blocks allocated while the calling thread's *tracking bracket* is open (i.e. inside a
//! rust-cc API call, outside harness callbacks) are recorded in a side table. When such a
//! block is released it is checked (known? same layout? not already released?), filled with
//! 0xDD and *quarantined*: the memory is not handed back to the system allocator until the
//! case is over, so a later read through a stale pointer yields poison instead of plausible
//! data, and a second release of the same address is recognised as a double free.
//!
//! With the `asan` feature the quarantine is off (AddressSanitizer supplies its own).

use std::alloc::{GlobalAlloc, Layout, System};
use std::cell::Cell;
use std::sync::atomic::{AtomicBool, AtomicU64, AtomicUsize, Ordering};

pub const POISON: u8 = 0xDD;

const CAP: usize = 1 << 13;
const MAX_LOAD: usize = CAP / 2;

#[derive(Clone, Copy)]
struct Entry {
    addr: usize,
    size: usize,
    align: usize,
    serial: u64,
    state: u8, // 0 empty, 1 live, 2 released (quarantined)
    tid: u32,
}

const EMPTY: Entry = Entry { addr: 0, size: 0, align: 0, serial: 0, state: 0, tid: 0 };
static NEXT_TID: std::sync::atomic::AtomicU32 = std::sync::atomic::AtomicU32::new(1);

static LOCK: AtomicBool = AtomicBool::new(false);
static mut TABLE: [Entry; CAP] = [EMPTY; CAP];
static USED: AtomicUsize = AtomicUsize::new(0);
static SERIAL: AtomicU64 = AtomicU64::new(1);
static OVERFLOW: AtomicUsize = AtomicUsize::new(0);

#[derive(Clone, Copy, Debug)]
pub struct AllocViolation {
    pub kind: u8, // 1 double free, 2 layout mismatch
    pub addr: usize,
    pub size: usize,
    pub align: usize,
    pub got_size: usize,
    pub got_align: usize,
}

const NOV: AllocViolation = AllocViolation { kind: 0, addr: 0, size: 0, align: 0, got_size: 0, got_align: 0 };
static mut VIOLS: [AllocViolation; 8] = [NOV; 8];
static NVIOLS: AtomicUsize = AtomicUsize::new(0);

thread_local! {
    static TRACK: Cell<u32> = const { Cell::new(0) };
    // set while this thread holds the table lock: (de)allocations made meanwhile bypass the table
    static HOLDING: Cell<bool> = const { Cell::new(false) };
    static TID: Cell<u32> = const { Cell::new(0) };
}

/// A small per-thread id (blocks are attributed to the thread that allocated them).
#[inline]
pub fn tid() -> u32 {
    TID.try_with(|t| {
        if t.get() == 0 {
            t.set(NEXT_TID.fetch_add(1, Ordering::Relaxed));
        }
        t.get()
    })
    .unwrap_or(0)
}

#[inline]
fn holding() -> bool {
    HOLDING.try_with(|h| h.get()).unwrap_or(true)
}

struct Guard;
impl Guard {
    #[inline]
    fn lock() -> Guard {
        while LOCK.compare_exchange_weak(false, true, Ordering::Acquire, Ordering::Relaxed).is_err() {
            std::hint::spin_loop();
        }
        let _ = HOLDING.try_with(|h| h.set(true));
        Guard
    }
}
impl Drop for Guard {
    #[inline]
    fn drop(&mut self) {
        let _ = HOLDING.try_with(|h| h.set(false));
        LOCK.store(false, Ordering::Release);
    }
}

#[inline]
fn hash(addr: usize) -> usize {
    ((addr >> 3).wrapping_mul(0x9E37_79B9_7F4A_7C15)) >> (64 - 13)
}

#[allow(static_mut_refs)]
unsafe fn find(addr: usize) -> Option<usize> {
    let mut i = hash(addr) & (CAP - 1);
    for _ in 0..CAP {
        let e = &TABLE[i];
        if e.state == 0 {
            return None;
        }
        if e.addr == addr {
            return Some(i);
        }
        i = (i + 1) & (CAP - 1);
    }
    None
}

#[allow(static_mut_refs)]
unsafe fn insert(addr: usize, size: usize, align: usize) {
    let mut i = hash(addr) & (CAP - 1);
    loop {
        let e = &mut TABLE[i];
        if e.state == 0 || e.addr == addr {
            if e.state == 0 {
                USED.fetch_add(1, Ordering::Relaxed);
            }
            *e = Entry { addr, size, align, serial: SERIAL.fetch_add(1, Ordering::Relaxed), state: 1, tid: tid() };
            return;
        }
        i = (i + 1) & (CAP - 1);
    }
}

#[allow(static_mut_refs)]
unsafe fn push_violation(v: AllocViolation) {
    let n = NVIOLS.load(Ordering::Relaxed);
    if n < 8 {
        VIOLS[n] = v;
        NVIOLS.store(n + 1, Ordering::Relaxed);
    }
}

pub struct Tracking;

#[inline]
fn tracking_on() -> bool {
    TRACK.try_with(|t| t.get() > 0).unwrap_or(false)
}

unsafe impl GlobalAlloc for Tracking {
    unsafe fn alloc(&self, layout: Layout) -> *mut u8 {
        let p = System.alloc(layout);
        if !p.is_null() && tracking_on() && !holding() {
            let _g = Guard::lock();
            if USED.load(Ordering::Relaxed) < MAX_LOAD {
                insert(p as usize, layout.size(), layout.align());
            } else {
                OVERFLOW.fetch_add(1, Ordering::Relaxed);
            }
        }
        p
    }

    #[allow(static_mut_refs)]
    unsafe fn dealloc(&self, ptr: *mut u8, layout: Layout) {
        if USED.load(Ordering::Relaxed) != 0 && !holding() {
            let _g = Guard::lock();
            if let Some(i) = find(ptr as usize) {
                let e = &mut TABLE[i];
                if e.state == 2 {
                    push_violation(AllocViolation {
                        kind: 1,
                        addr: e.addr,
                        size: e.size,
                        align: e.align,
                        got_size: layout.size(),
                        got_align: layout.align(),
                    });
                    return; // never forward a double free
                }
                if e.size != layout.size() || e.align != layout.align() {
                    push_violation(AllocViolation {
                        kind: 2,
                        addr: e.addr,
                        size: e.size,
                        align: e.align,
                        got_size: layout.size(),
                        got_align: layout.align(),
                    });
                }
                e.state = 2;
                if cfg!(feature = "asan") {
                    // hand the memory back now; AddressSanitizer quarantines it
                    drop(_g);
                    System.dealloc(ptr, layout);
                } else {
                    std::ptr::write_bytes(ptr, POISON, e.size);
                }
                return;
            }
        }
        System.dealloc(ptr, layout);
    }
}

/// RAII bracket: allocations made by this thread while it is open are tracked.
pub struct Bracket {
    prev: u32,
}

impl Bracket {
    #[inline]
    pub fn open() -> Bracket {
        let prev = TRACK.with(|t| t.replace(1));
        Bracket { prev }
    }
    /// Used by harness callbacks: suspends tracking for harness-owned allocations.
    #[inline]
    pub fn suspend() -> Bracket {
        let prev = TRACK.with(|t| t.replace(0));
        Bracket { prev }
    }
}

impl Drop for Bracket {
    #[inline]
    fn drop(&mut self) {
        let _ = TRACK.try_with(|t| t.set(self.prev));
    }
}

#[derive(Clone, Copy, Debug, PartialEq, Eq)]
pub struct Block {
    pub addr: usize,
    pub size: usize,
    pub align: usize,
    pub serial: u64,
    pub live: bool,
}

/// Looks up the tracked block starting at `addr`.
#[allow(static_mut_refs)]
pub fn block_at(addr: usize) -> Option<Block> {
    let _s = Bracket::suspend();
    let _g = Guard::lock();
    unsafe {
        find(addr).map(|i| {
            let e = TABLE[i];
            Block { addr: e.addr, size: e.size, align: e.align, serial: e.serial, live: e.state == 1 }
        })
    }
}

/// Looks up the tracked block containing `addr` (linear scan).
#[allow(static_mut_refs)]
pub fn block_containing(addr: usize) -> Option<Block> {
    let _s = Bracket::suspend();
    let _g = Guard::lock();
    unsafe {
        for e in TABLE.iter() {
            if e.state != 0 && e.addr <= addr && addr < e.addr + e.size.max(1) {
                return Some(Block { addr: e.addr, size: e.size, align: e.align, serial: e.serial, live: e.state == 1 });
            }
        }
    }
    None
}

/// Current serial: blocks tracked from now on have a serial >= this value.
pub fn serial_now() -> u64 {
    SERIAL.load(Ordering::Relaxed)
}

/// Every block tracked for the calling thread with serial >= `since` (linear scan), by serial.
#[allow(static_mut_refs)]
pub fn blocks_since(since: u64) -> Vec<Block> {
    let _s = Bracket::suspend();
    let mut out = Vec::new();
    let me = tid();
    {
        let _g = Guard::lock();
        unsafe {
            for e in TABLE.iter() {
                if e.state != 0 && e.serial >= since && e.tid == me {
                    out.push(Block { addr: e.addr, size: e.size, align: e.align, serial: e.serial, live: e.state == 1 });
                }
            }
        }
    }
    out.sort_by_key(|b| b.serial);
    out
}

/// Takes the allocator rule violations recorded so far.
#[allow(static_mut_refs)]
pub fn take_violations() -> Vec<AllocViolation> {
    if NVIOLS.load(Ordering::Relaxed) == 0 {
        return Vec::new();
    }
    let _s = Bracket::suspend();
    let _g = Guard::lock();
    let n = NVIOLS.swap(0, Ordering::Relaxed);
    unsafe { VIOLS[..n].to_vec() }
}

pub fn overflow_count() -> usize {
    OVERFLOW.load(Ordering::Relaxed)
}

/// End of a case: hands every quarantined block back to the system allocator and forgets
/// every tracked block. Must be called while no case thread is running.
#[allow(static_mut_refs)]
pub fn end_case() {
    let _s = Bracket::suspend();
    let _g = Guard::lock();
    unsafe {
        if USED.load(Ordering::Relaxed) != 0 {
            for e in TABLE.iter_mut() {
                if e.state == 2 && !cfg!(feature = "asan") {
                    System.dealloc(e.addr as *mut u8, Layout::from_size_align_unchecked(e.size, e.align));
                }
                *e = EMPTY;
            }
            USED.store(0, Ordering::Relaxed);
        }
        NVIOLS.store(0, Ordering::Relaxed);
    }
}

/// End of a case whose thread was abandoned (parked for ever): forget the table without
/// releasing anything (the abandoned thread's data may still point into these blocks).
#[allow(static_mut_refs)]
pub fn abandon_case() {
    let _s = Bracket::suspend();
    let _g = Guard::lock();
    unsafe {
        for e in TABLE.iter_mut() {
            *e = EMPTY;
        }
        USED.store(0, Ordering::Relaxed);
        NVIOLS.store(0, Ordering::Relaxed);
    }
}
