//! rccv: property-based testing / fuzzing harness for rust-cc.

pub mod alloc;
pub mod case;
pub mod checks;
pub mod containers;
pub mod crash;
pub mod decode;
pub mod engine;
pub mod fwd;
pub mod gen;
pub mod heap;
pub mod layout;
pub mod limits;
pub mod ops;
pub mod policy;
pub mod run;
pub mod threads;
pub mod world;

#[global_allocator]
static GLOBAL: alloc::Tracking = alloc::Tracking;
