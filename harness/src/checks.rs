//! Boundary rules evaluated after every top-level operation, the quiescence rule of C02 and
//! the epilogue of a case.

use std::collections::BTreeSet;

use rust_cc::{state, verif};

use crate::alloc::{self, Bracket};
use crate::ops;
use crate::world::*;

fn box_live(addr: usize) -> bool {
    addr != 0 && addr != usize::MAX && alloc::block_at(addr).map_or(false, |b| b.live)
}

/// Everything that must hold between two top-level operations.
pub fn boundary(after_unwind: bool) {
    // --- allocator rules (C03) ---------------------------------------------------------
    let av = alloc::take_violations();
    w(|w| {
        for v in av {
            let what = if v.kind == 1 { "double-free" } else { "dealloc-layout-mismatch" };
            let d = format!(
                "{} of block {:#x} (allocated size {} align {}, released with size {} align {})",
                what, v.addr, v.size, v.align, v.got_size, v.got_align
            );
            w.violation(&["C03"], what, what.to_string(), d, false);
        }
    });

    // --- collector idle (C12; after a fault: C07) --------------------------------------
    let tracing = state::is_tracing().unwrap_or(false);
    let flags = verif::state_flags().unwrap_or((false, false, false));
    w(|w| {
        let p = if after_unwind || w.any_panic { "C07" } else { "C12" };
        if tracing {
            w.violation(&[p, "C12"], "is-tracing-at-top-level", "is-tracing-at-top-level".into(), "is_tracing() == true between operations".into(), false);
        }
        if flags.0 || flags.1 || flags.2 {
            let sig = format!("collector-not-idle/{}{}{}", flags.0 as u8, flags.1 as u8, flags.2 as u8);
            w.violation(&[p, "C12"], "collector-not-idle", sig, format!("phase flags (collecting, finalizing, dropping) = {:?} between operations", flags), false);
        }
    });

    // --- walk the actual pointers from the program's roots (C01, C04, C05, C09) --------
    walk_roots();

    // --- per-object rules --------------------------------------------------------------
    w(|w| {
        let exec_now = state::executions_count().unwrap_or(0);
        if exec_now < w.exec_before {
            w.violation(&["C11"], "executions-count-decreased", "executions-count-decreased".into(), format!("executions_count went {} -> {}", w.exec_before, exec_now), false);
        }
        let no_collection_in_call = exec_now == w.exec_before && !w.trace_in_call;
        let call = w.call;
        let panic_free = !w.any_panic;
        for i in 0..w.objs.len() {
            let (id, in_box, dropped, moved, never, uninit, baddr, tainted, drop_call, zeroed, loose) = {
                let o = &w.objs[i];
                (o.id, o.in_box, o.dropped, o.moved_out, o.never_init, o.uninit, o.box_addr, o.tainted, o.drop_call, o.zeroed_call, o.loose)
            };
            if baddr == 0 {
                continue;
            }
            let live = box_live(baddr);
            // C03: released only after drop / move-out / never initialised
            if !live && in_box && !dropped && !moved && !never && !uninit {
                if !w.objs[i].release_reported {
                    w.objs[i].release_reported = true;
                    w.violation(&["C03", "C01"], "released-before-drop", "released-before-drop".into(), format!("allocation of obj{} released although its value was never dropped", id), false);
                }
            }
            // C03: in panic-free executions the allocation of a dropped value is released
            // before the API call that dropped it returns
            if live && in_box && dropped && drop_call == call && panic_free && !tainted {
                w.violation(&["C03"], "dropped-but-not-released", "dropped-but-not-released".into(), format!("obj{} was dropped in this call but its allocation is still live", id), false);
            }
            // C14: memory of a never-initialised new_cyclic object is released
            if live && never && !in_box && !tainted && !w.objs[i].release_reported {
                w.objs[i].release_reported = true;
                w.violation(&["C14"], "cyclic-box-leaked", "cyclic-box-leaked".into(), format!("allocation of never-initialised obj{} not released after the closure panicked", id), false);
            }
            // C04: last pointer gone outside a collection => reclaimed at once
            if zeroed == call && in_box && !dropped && !moved && !loose && panic_free && no_collection_in_call && !tainted && w.shadow_strong(id) == 0 {
                let sig = format!("not-reclaimed-at-last-drop/{}", if w.objs[i].was_buffered_or_collected { "history" } else { "fresh" });
                w.violation(&["C04"], "not-reclaimed-at-last-drop", sig, format!("obj{} lost its last Cc in this call (no collection ran) but was not dropped", id), false);
            }
            // C04 converse: a dropped object has no pointer left
            if dropped && in_box && panic_free {
                let n = w.shadow_strong(id);
                if n > 0 && !tainted {
                    // only meaningful if some holder is program-reachable
                    let reach = w.reach(None);
                    if reach.contains(&id) && !w.objs[i].release_reported {
                        w.objs[i].release_reported = true;
                        w.violation(&["C01", "C04"], "dropped-but-referenced", "dropped-but-referenced".into(), format!("obj{} is dropped but still reachable through {} pointers", id, n), false);
                    }
                }
            }
        }
    });

    // --- weak handles (C09) --------------------------------------------------------------
    #[cfg(feature = "weak-ptrs")]
    w(|w| {
        for i in 0..w.weaks.len() {
            let Some(e) = w.weaks[i].as_ref() else { continue };
            let (sc, wc) = {
                let _b = Bracket::open();
                (e.w.strong_count(), e.w.weak_count())
            };
            let target = e.target;
            match target {
                None => {
                    if sc != 0 || wc != 0 {
                        w.violation(&["C09", "C08"], "weak-new-counts", "weak-new-counts".into(), format!("Weak::new() reports strong {} weak {}", sc, wc), false);
                    }
                }
                Some(t) => {
                    let (alive, tainted) = {
                        let o = &w.objs[t as usize];
                        (o.in_box && !o.dropped && !o.moved_out && !o.uninit && !o.never_init, o.tainted || o.slack)
                    };
                    let exp_w = w.shadow_weak(t);
                    if !alive {
                        w.flags.c09_dead_query = true;
                    }
                    if wc != exp_w {
                        let sig = format!("weak-count/{}", if alive { "alive" } else { "dead" });
                        w.violation(&["C09"], "weak-count", sig, format!("Weak::weak_count() of weak->obj{} is {}, {} Weak pointers exist", t, wc, exp_w), false);
                    }
                    let exp_s = if alive { w.shadow_strong(t) } else { 0 };
                    let bad = if tainted && alive { sc != 0 && sc < exp_s } else { sc != exp_s };
                    if bad {
                        let sig = format!("weak-strong-count/{}", if alive { "alive" } else { "dead" });
                        let moved = w.objs[t as usize].moved_out;
                        if moved {
                            w.violation(&["C09", "C13"], "weak-strong-count", sig, format!("Weak::strong_count() of weak->obj{} (moved out by try_unwrap) is {}, expected {}", t, sc, exp_s), false);
                        } else {
                            w.violation(&["C09"], "weak-strong-count", sig, format!("Weak::strong_count() of weak->obj{} is {}, expected {}", t, sc, exp_s), false);
                        }
                    }
                }
            }
        }
        // side-record lifetime
        for i in 0..w.objs.len() {
            let (id, rec, baddr, tainted) = {
                let o = &w.objs[i];
                (o.id, o.side_rec, o.box_addr, o.tainted)
            };
            if rec == 0 {
                continue;
            }
            let rec_live = box_live(rec);
            let weak_n = w.shadow_weak(id);
            let b_live = box_live(baddr);
            if !rec_live && weak_n > 0 && !w.objs[i].rec_reported {
                w.objs[i].rec_reported = true;
                w.violation(&["C09", "C03"], "side-record-released-early", "side-record-released-early".into(), format!("side record of obj{} released while {} Weak pointers exist", id, weak_n), false);
            }
            if rec_live && weak_n == 0 && !b_live && !tainted && !w.any_panic && !w.objs[i].rec_reported {
                w.objs[i].rec_reported = true;
                w.violation(&["C09"], "side-record-leaked", "side-record-leaked".into(), format!("side record of obj{} still allocated although the allocation and every Weak are gone", id), false);
            }
            // C14: after a panicked new_cyclic "all memory is released" - also the side record, once
            // the clones saved by the closure are gone (this holds whatever else panicked)
            if rec_live && weak_n == 0 && !b_live && w.objs[i].never_init && !w.objs[i].rec_reported {
                w.objs[i].rec_reported = true;
                w.violation(&["C14", "C09"], "side-record-leaked", "side-record-leaked/after-panicked-new-cyclic".into(), format!("side record of obj{} (new_cyclic whose closure panicked) still allocated although its box and every Weak are gone", id), false);
            }
        }
    });

    // --- upgrade attempts made from destructors during a deallocation batch (C08) ------
    #[cfg(feature = "weak-ptrs")]
    w(|w| {
        let attempts = std::mem::take(&mut w.attempts);
        for a in attempts {
            let o = &w.objs[a.target as usize];
            if o.dropped || o.tainted || o.moved_out {
                continue; // it was destroyed in that batch (or the batch was unwound): None was right
            }
            let d = format!("upgrade returned None for obj{} which was alive, owned and not being destroyed", a.target);
            w.violation(&["C08"], "upgrade-none-on-live", a.sig.clone(), d, false);
        }
    });

    // --- cleaners (C10) -------------------------------------------------------------------
    w(|w| {
        if !w.any_panic {
            for aid in 0..w.actions.len() {
                let a = &w.actions[aid];
                let od = w.objs[a.owner as usize].dropped;
                if od && a.runs != 1 && !w.actions[aid].reported {
                    let (owner, runs) = (a.owner, a.runs);
                    w.actions[aid].reported = true;
                    let sig = format!("action-count-after-owner-drop/{}", runs);
                    w.violation(&["C10"], "action-count-after-owner-drop", sig, format!("owner obj{} was dropped; action {} ran {} times", owner, aid, runs), false);
                }
            }
        }
    });

    // --- introspection counters (C11) ------------------------------------------------------
    counters();
}

/// Walks the actual object graph from every program-held pointer.
fn walk_roots() {
    let roots: Vec<(Oid, usize, bool)> = w(|w| {
        let mut v = Vec::new();
        for h in w.handles.iter().flatten() {
            v.push((h.oid, w.objs[h.oid as usize].payload, true));
        }
        for l in w.looses.iter().flatten() {
            v.push((l.oid, &*l.node as *const Node as usize, false));
        }
        v
    });
    let mut seen: BTreeSet<Oid> = BTreeSet::new();
    let mut stack: Vec<(Oid, usize, bool)> = Vec::new();
    for r in roots {
        if seen.insert(r.0) {
            stack.push(r);
        }
    }
    while let Some((oid, payload, boxed)) = stack.pop() {
        // the box must still be allocated before anything is read through the pointer
        let ok = w(|w| {
            let o = &w.objs[oid as usize];
            let res = o.resurrected;
            if boxed {
                if !box_live(o.box_addr) {
                    let mut props = vec!["C01"];
                    if res {
                        props.push("C06");
                    }
                    if !w.objs[oid as usize].release_reported {
                        w.objs[oid as usize].release_reported = true;
                        w.violation(&props, "reachable-box-released", "reachable-box-released".into(), format!("allocation of program-reachable obj{} has been released", oid), false);
                    }
                    return false;
                }
                if o.dropped {
                    // reported by the drop-on-reachable / dropped-but-referenced rules
                    return false;
                }
            }
            true
        });
        if !ok {
            continue;
        }
        let n: &Node = unsafe { &*(payload as *const Node) };
        let c = n.canary.get();
        if c != LIVE || n.id != oid {
            w(|w| {
                let mut props = vec!["C01"];
                if w.objs[oid as usize].resurrected {
                    props.push("C06");
                }
                let sig = format!("reachable-value-damaged/{}", if c == POISON64 { "poison" } else if c == DEAD { "dead" } else { "garbage" });
                w.violation(&props, "reachable-value-damaged", sig, format!("program-reachable obj{} reads canary {:#x} id {}", oid, c, n.id), false);
            });
            continue;
        }
        w(|w| {
            if w.objs[oid as usize].resurrected && !w.objs[oid as usize].res_used {
                w.objs[oid as usize].res_used = true;
                w.stats.resurrected_used += 1;
            }
        });
        for s in 0..NSLOTS {
            let Ok(b) = n.slot(s).try_borrow() else { continue };
            let expect = w(|w| w.objs[oid as usize].slots[s].map(|e| e.to));
            match (b.as_ref(), expect) {
                (None, None) => {}
                (Some(cc), Some(t)) => {
                    let snap = verif::object_snapshot(cc);
                    let tb = w(|w| w.objs[t as usize].box_addr);
                    if snap.box_addr != tb {
                        w(|w| w.violation(&["C01"], "slot-identity", "slot-identity".into(), format!("slot {} of obj{} points to {:#x}, obj{} lives at {:#x}", s, oid, snap.box_addr, t, tb), false));
                        continue;
                    }
                    if seen.insert(t) {
                        stack.push((t, tb + payload_offset(), true));
                    }
                }
                (a, e) => {
                    let full = a.is_some();
                    w(|w| w.violation(&["C01"], "slot-presence", "slot-presence".into(), format!("slot {} of obj{}: actual {} vs shadow {:?}", s, oid, if full { "Some" } else { "None" }, e), false));
                }
            }
        }
    }
    // counts and flags of every object that was reached and is boxed
    w(|w| {
        for &oid in &seen {
            let o = &w.objs[oid as usize];
            if !o.in_box || o.dropped || !box_live(o.box_addr) {
                continue;
            }
            let snap = unsafe { verif::object_snapshot_at(o.box_addr) };
            // strong_count() is the public view of this field; read through a real handle below
            let real = snap.strong() as u32;
            let exp = w.shadow_strong(oid);
            let tainted = o.tainted || o.slack;
            let bad = if tainted { real < exp } else { real != exp };
            if bad {
                let sig = format!("strong-count/{}", if real < exp { "too-low" } else { "too-high" });
                let d = format!("strong count of obj{} is {}, {} Cc pointers exist", oid, real, exp);
                let mut props = vec!["C04"];
                if w.objs[oid as usize].resurrected {
                    props.push("C06");
                }
                w.violation(&props, "strong-count", sig, d, false);
            }
            #[cfg(feature = "finalization")]
            {
                let o = &w.objs[oid as usize];
                if snap.finalized() != o.model_finalized && !o.tainted {
                    let sig = format!("already-finalized/{}", if snap.finalized() { "unexpected-true" } else { "unexpected-false" });
                    let d = format!("already_finalized() of obj{} is {}, model says {}", oid, snap.finalized(), o.model_finalized);
                    // losing the flag on a resurrected object is what makes a second finalization possible (C06)
                    let props: &[&str] = if o.resurrected && !snap.finalized() { &["C05", "C06"] } else { &["C05"] };
                    w.violation(props, "already-finalized", sig, d, false);
                }
            }
        }
        // the public accessors agree with what was read (through actual handles)
        for i in 0..w.handles.len() {
            let Some(h) = w.handles[i].as_ref() else { continue };
            let oid = h.oid;
            let o = &w.objs[oid as usize];
            if o.dropped || !box_live(o.box_addr) {
                continue;
            }
            let sc = h.cc.strong_count();
            let snap = verif::object_snapshot(&h.cc);
            #[cfg(feature = "weak-ptrs")]
            let wc = h.cc.weak_count();
            #[cfg(feature = "finalization")]
            let af = h.cc.already_finalized();
            if sc != snap.strong() as u32 {
                w.violation(&["C04"], "strong-count-accessor", "strong-count-accessor".into(), format!("strong_count() = {} but the counter field holds {}", sc, snap.strong()), false);
            }
            #[cfg(feature = "weak-ptrs")]
            {
                let exp = w.shadow_weak(oid);
                if wc != exp {
                    w.violation(&["C09"], "cc-weak-count", "cc-weak-count".into(), format!("Cc::weak_count() of obj{} is {}, {} Weak pointers exist", oid, wc, exp), false);
                }
            }
            #[cfg(feature = "finalization")]
            {
                if af != snap.finalized() {
                    w.violation(&["C05"], "already-finalized-accessor", "already-finalized-accessor".into(), "already_finalized() disagrees with the flag".into(), false);
                }
            }
        }
    });
}

/// C11: buffer consistency, byte accounting.
fn counters() {
    let buf = verif::buffer_snapshot(1 << 16);
    let cached = state::buffered_objects_count().ok();
    let bytes = state::allocated_bytes().unwrap_or(0);
    w(|w| {
        if let (Some(buf), Some(cached)) = (buf, cached) {
            if buf.truncated {
                w.violation(&["C11"], "buffer-cyclic", "buffer-cyclic".into(), "the buffer list does not terminate".into(), false);
            } else {
                if buf.entries.len() != cached || buf.cached_size != cached {
                    let sig = format!("buffer-size/{}", if cached > buf.entries.len() { "cached-too-high" } else { "cached-too-low" });
                    w.violation(&["C11"], "buffer-size", sig, format!("buffered_objects_count() = {} but the list holds {} entries", cached, buf.entries.len()), false);
                }
                if !buf.links_consistent {
                    w.violation(&["C11"], "buffer-links", "buffer-links".into(), "prev/next links of the buffer disagree".into(), false);
                }
                let mut seen = BTreeSet::new();
                for e in &buf.entries {
                    if !seen.insert(e.box_addr) {
                        w.violation(&["C11"], "buffer-duplicate", "buffer-duplicate".into(), format!("allocation {:#x} is buffered twice", e.box_addr), false);
                    }
                    if !box_live(e.box_addr) && alloc::overflow_count() == 0 {
                        w.violation(&["C11", "C01"], "buffer-dead-entry", "buffer-dead-entry".into(), format!("buffer entry {:#x} is not a live allocation", e.box_addr), false);
                    } else if e.mark() != 1 {
                        w.violation(&["C11"], "buffer-entry-mark", "buffer-entry-mark".into(), format!("buffer entry {:#x} is not marked as buffered (mark {})", e.box_addr, e.mark()), false);
                    }
                }
            }
        }
        // exact buffered set (Node objects; the crate-internal cleaner maps are not modelled)
        if let Some(buf) = verif::buffer_snapshot(1 << 16) {
            if !buf.truncated {
                let mut by_box: std::collections::BTreeMap<usize, Oid> = std::collections::BTreeMap::new();
                for o in &w.objs {
                    if o.in_box && !o.dropped && o.box_addr != 0 {
                        by_box.insert(o.box_addr, o.id);
                    }
                }
                let observed: BTreeSet<Oid> = buf.entries.iter().filter_map(|e| by_box.get(&e.box_addr).copied()).collect();
                let unknown = buf.entries.iter().filter(|e| !by_box.contains_key(&e.box_addr)).count();
                let exec_now = state::executions_count().unwrap_or(0);
                let collection_in_call = exec_now != w.exec_before || w.trace_in_call;
                let model = buf_get();
                if w.panicked_this_call || w.any_panic || (w.ptr_ops_in_callbacks && !collection_in_call) {
                    buf_set(observed);
                } else if !collection_in_call {
                    if observed != model {
                        let missing: Vec<_> = model.difference(&observed).collect();
                        let extra: Vec<_> = observed.difference(&model).collect();
                        let sig = format!("buffered-set/{}", if !missing.is_empty() { "object-not-buffered" } else { "object-still-buffered" });
                        let d = format!("buffered objects {:?}, model {:?} (expected but absent: {:?}; present but unexpected: {:?}) after op kind {}", observed, model, missing, extra, w.cur_op_kind);
                        w.violation(&["C11"], "buffered-set", sig, d, false);
                        buf_set(observed);
                    }
                } else {
                    // a collection ran in this call
                    let quiet = w.fin_seen_in_call == 0 && w.drop_seen_in_call == 0 && w.created_in_call == 0;
                    if quiet && w.cur_op_kind == 9 && (!observed.is_empty() || unknown != 0) {
                        let sig = "buffered-set/not-empty-after-quiet-collection".to_string();
                        w.violation(&["C11", "C02"], "buffered-set", sig, format!("a collection that ran no finalizer and no destructor left {:?} (+{} other entries) buffered", observed, unknown), false);
                    }
                    // whatever stays buffered must be alive and have lost a pointer at some time
                    for &x in &observed {
                        let o = &w.objs[x as usize];
                        // (not decidable when a callback of this call acquired or released pointers: the drop
                        // glue that runs after a destructor may then release a pointer to an object that got
                        // a second owner meanwhile - the quantifier of C11 excludes exactly those programs)
                        if !o.lost_ptr && o.fin_count == 0 && !o.tainted && !w.ptr_ops_in_callbacks {
                            w.violation(&["C11"], "buffered-set", "buffered-set/never-lost-a-pointer".into(), format!("obj{} is buffered after a collection but never lost a pointer", x), false);
                        }
                    }
                    buf_set(observed);
                }
            }
        }
        // bytes = sum of sizes of the live managed allocations (objects + cleaner maps)
        if !w.bytes_unknown && alloc::overflow_count() == 0 {
            let mut sum = 0usize;
            for o in &w.objs {
                if o.box_addr != 0 && box_live(o.box_addr) {
                    sum += o.box_size;
                }
                if o.map_box != 0 && box_live(o.map_box) {
                    sum += o.map_size;
                }
            }
            if sum != bytes {
                let sig = format!("allocated-bytes/{}", if bytes > sum { "too-high" } else { "too-low" });
                let props: &[&str] = if w.any_panic { &["C11"] } else { &["C11", "C02"] };
                w.violation(props, "allocated-bytes", sig, format!("allocated_bytes() = {} but the live managed allocations total {}", bytes, sum), false);
                w.bytes_unknown = true; // report once
            }
        }
    });
}

/// C02: collect until a call runs no finalizer and no destructor, then everything that is
/// neither reachable nor pinned must be gone. Only used in fault-free cases.
pub fn quiesce(tag: &str) {
    let (n_objs, skip) = w(|w| (w.objs.len(), w.any_panic || !w.faults.is_empty()));
    if skip {
        return;
    }
    let bound = 4 * n_objs + 12;
    let mut rounds = 0;
    let mut reclaimed_before = w(|w| w.stats.collector_reclaimed);
    let _ = &mut reclaimed_before;
    loop {
        ops::begin_call(-2);
        let ev0 = w(|w| (w.fin_seen_in_call, w.drop_seen_in_call, w.stats.action_events));
        let r = std::panic::catch_unwind(|| prim_collect());
        let ev1 = w(|w| (w.fin_seen_in_call, w.drop_seen_in_call, w.stats.action_events));
        ops::end_call(r);
        rounds += 1;
        if ev0 == ev1 {
            break;
        }
        if rounds > bound {
            w(|w| w.violation(&["C02", "C06"], "never-quiesces", "never-quiesces".into(), format!("{} collections in a row still ran finalizers/destructors", rounds), false));
            return;
        }
    }
    w(|w| {
        if w.any_panic {
            return;
        }
        let reach = w.reach(None);
        // pinned: targets of untraced edges (slot 3, captured by actions) whose source is live
        let mut pinned: BTreeSet<Oid> = BTreeSet::new();
        let mut stack = Vec::new();
        for o in &w.objs {
            let live = o.in_box && !o.dropped;
            if !live {
                continue;
            }
            if let Some(e) = o.slots[UNTRACED] {
                if pinned.insert(e.to) {
                    stack.push(e.to);
                }
            }
            for &aid in &o.actions {
                let a = &w.actions[aid];
                if !a.done {
                    if let Some(t) = a.captured {
                        if pinned.insert(t) {
                            stack.push(t);
                        }
                    }
                }
            }
        }
        while let Some(x) = stack.pop() {
            for y in w.reach_from(x) {
                pinned.insert(y);
            }
        }
        let mut leaked = Vec::new();
        for o in &w.objs {
            let live = o.in_box && !o.dropped && !o.uninit;
            if live && !reach.contains(&o.id) && !pinned.contains(&o.id) {
                leaked.push(o.id);
            }
        }
        if !leaked.is_empty() {
            let d = format!("after {} quiescent collections ({}) unreachable, unpinned objects are still alive: {:?}", rounds, tag, leaked);
            let res = leaked.iter().any(|&i| w.objs[i as usize].fin_count > 0);
            let sig = format!("unreclaimed-garbage/{}", if res { "finalized" } else { "unfinalized" });
            let mut props = vec!["C02"];
            if leaked.iter().any(|&i| w.objs[i as usize].resurrected) {
                props.push("C06");
            }
            w.violation(&props, "unreclaimed-garbage", sig, d, false);
        }
        w.stats.classes.insert("quiesced".into());
    });
}
