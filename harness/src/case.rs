//! The heap-program case format shared by all engines (proptest, enumerator, fuzz decoder,
//! crash-point enumerator) and by replay files.

use serde::{Deserialize, Serialize};

/// Selector of a live handle: mapped monotonically onto the table of live handles
/// (`index = sel * len >> 8`), so that shrinking a selector moves towards older handles.
pub type Sel = u8;

/// Callback kinds at which a fault (panic) can be injected.
#[derive(Clone, Copy, Debug, PartialEq, Eq, Hash, PartialOrd, Ord, Serialize, Deserialize)]
pub enum Kind {
    Trace,
    /// `Trace::trace` panics after it has reported its fields
    TraceEnd,
    Finalize,
    Drop,
    Action,
    Closure,
}

pub const KINDS: [Kind; 6] = [Kind::Trace, Kind::Finalize, Kind::Drop, Kind::Action, Kind::Closure, Kind::TraceEnd];
pub const NKINDS: usize = 6;

impl Kind {
    pub fn idx(self) -> usize {
        match self {
            Kind::Trace => 0,
            Kind::Finalize => 1,
            Kind::Drop => 2,
            Kind::Action => 3,
            Kind::Closure => 4,
            Kind::TraceEnd => 5,
        }
    }
}

/// The `nth` (0-based, counted over the whole case) invocation of callback `kind` panics.
#[derive(Clone, Copy, Debug, PartialEq, Eq, Hash, Serialize, Deserialize)]
pub struct Fault {
    pub kind: Kind,
    pub nth: u32,
}

/// Operations a finalizer script can perform (`self` is the object being finalized).
#[derive(Clone, Debug, PartialEq, Eq, Hash, Serialize, Deserialize)]
pub enum FinOp {
    /// upgrade the weak in own weak slot `ws` and keep the result as a program handle
    UpgradeOwnWeak(u8),
    /// clone the `Cc` in own slot `s` and keep it as a program handle
    StashSlot(u8),
    /// clone the `Cc` found in slot `s2` of the object in own slot `s1` (may be `self`)
    StashNeighbourSlot(u8, u8),
    /// clone the `Cc` in own slot `s` and store it into slot `s2` of a program-held object
    StoreSlotInto(u8, Sel, u8),
    /// take the `Cc` out of own slot `s` and drop it
    DropSlot(u8),
    /// create an object and drop it at once
    AllocDrop,
    /// create an object and keep it as a program handle
    AllocStash,
    /// create a two-object cycle and drop both handles
    AllocCycleDrop,
    /// upgrade a program-held weak handle, keep the result
    UpgradeHandle(Sel),
    /// drop a program-held handle
    DropHandle(Sel),
    /// request a collection
    Collect,
    /// `try_unwrap` on a program-held handle (must return `Err` here)
    TryUnwrap(Sel),
    /// `finalize_again` on a program-held handle (must panic here; caught in the script)
    FinalizeAgain(Sel),
    /// `new_cyclic` with a closure that stores the weak into the new object
    NewCyclic,
    /// upgrade the weak in own weak slot `ws` and store the result into own slot `s`: the object
    /// makes *itself* (or a neighbour) part of a cycle that nothing live refers to
    UpgradeOwnWeakInto(u8, u8),
}

/// Operations a cleaning action can perform.
#[derive(Clone, Debug, PartialEq, Eq, Hash, Serialize, Deserialize)]
pub enum ActOp {
    /// drop the captured `Cc` (if any) now
    DropCaptured,
    /// create an object and keep it as a program handle
    AllocStash,
    /// create an object and drop it
    AllocDrop,
    /// upgrade the captured weak to the owner (must fail while the owner is being destroyed)
    UpgradeOwner,
    /// upgrade a program-held weak handle, keep the result
    UpgradeHandle(Sel),
    /// call `clean()` on a program-held cleanable
    CleanOther(Sel),
    /// request a collection
    Collect,
    /// `try_unwrap` on the captured `Cc`
    TryUnwrapCaptured,
}

/// Operations of a `new_cyclic` closure.
#[derive(Clone, Debug, PartialEq, Eq, Hash, Serialize, Deserialize)]
pub enum CloOp {
    /// clone the provided weak into the new object's weak slot `ws`
    StoreWeakSelf(u8),
    /// clone the provided weak and keep it as a program-held weak handle
    StashWeak,
    /// create an object and keep it as a program handle
    AllocStash,
    /// request a collection
    Collect,
    /// put a clone of a program-held handle into slot `s` of the new object
    LinkTo(u8, Sel),
}

#[derive(Clone, Debug, PartialEq, Eq, Hash, Serialize, Deserialize, Default)]
pub struct Spec {
    /// finalizer script
    pub fin: Vec<FinOp>,
    /// destructor queries: bit i set = upgrade own weak slot i inside `Drop`
    pub dq: u8,
}

#[derive(Clone, Debug, PartialEq, Eq, Hash, Serialize, Deserialize)]
pub enum Op {
    New(Spec),
    NewCyclic(Spec, Vec<CloOp>),
    Clone(Sel),
    Drop(Sel),
    /// store a clone of handle `t` into slot `s` of the object of handle `h`
    SetSlot { h: Sel, s: u8, t: Sel },
    /// move handle `t` itself into slot `s` of the object of handle `h`
    MoveSlot { h: Sel, s: u8, t: Sel },
    ClearSlot { h: Sel, s: u8 },
    /// move the `Cc` out of the slot into a new program handle
    TakeSlot { h: Sel, s: u8 },
    MarkAlive(Sel),
    Collect,
    Downgrade(Sel),
    WeakClone(Sel),
    WeakDrop(Sel),
    Upgrade(Sel),
    /// clone weak handle `w` into weak slot `ws` of the object of handle `h`
    StoreWeak { h: Sel, ws: u8, w: Sel },
    ClearWeak { h: Sel, ws: u8 },
    WeakNew,
    TryUnwrap(Sel),
    DropLoose(Sel),
    FinalizeAgain(Sel),
    /// register a cleaning action on the object of `h`; `cap`: capture a clone of that handle
    Register { h: Sel, act: Vec<ActOp>, cap: Option<Sel>, weak_owner: bool },
    Clean(Sel),
    DropCleanable(Sel),
    SetConfig { auto: bool, thr: u8, pct: u8 },
    /// the same operation with *relative* selectors: selector k addresses the k-th most recent
    /// live entry of its table (0 = newest). Lets generated idioms refer to the objects they
    /// have just created; resolved into an absolute operation when it is executed.
    Rel(Box<Op>),
}

#[derive(Clone, Debug, PartialEq, Eq, Hash, Serialize, Deserialize, Default)]
pub struct Case {
    /// initial configuration: automatic collection on?
    pub auto: bool,
    pub ops: Vec<Op>,
    pub faults: Vec<Fault>,
}

impl Case {
    pub fn hash64(&self) -> u64 {
        use std::hash::{Hash, Hasher};
        let mut h = Fnv(0xcbf29ce484222325);
        self.hash(&mut h);
        h.finish()
    }
}

/// FNV-1a: a fixed, platform-independent hash for canonical case identity.
pub struct Fnv(pub u64);
impl std::hash::Hasher for Fnv {
    fn finish(&self) -> u64 {
        self.0
    }
    fn write(&mut self, bytes: &[u8]) {
        for b in bytes {
            self.0 ^= *b as u64;
            self.0 = self.0.wrapping_mul(0x100000001b3);
        }
    }
}

pub fn hash_seed(parts: &[&str], nums: &[u64]) -> u64 {
    use std::hash::Hasher;
    let mut h = Fnv(0xcbf29ce484222325);
    for p in parts {
        h.write(p.as_bytes());
        h.write(&[0xff]);
    }
    for n in nums {
        h.write(&n.to_le_bytes());
    }
    h.finish()
}
