//! C16: reference counts saturate with a panic instead of wrapping.
//!
//! Generated: object variant x way of reaching the limit x start offset below the limit x a
//! short walk of pointer operations around the boundary. Oracle: saturating model.

use std::cell::{Cell, RefCell};
use std::panic::{catch_unwind, AssertUnwindSafe};

use proptest::prelude::*;
use serde::{Deserialize, Serialize};

use rust_cc::{collect_cycles, verif, Cc, Context, Finalize, Trace};
#[cfg(feature = "weak-ptrs")]
use rust_cc::weak::Weak;

use crate::world::Violation;

pub const MAX_STRONG: u32 = 16382;
pub const MAX_WEAK: u32 = 32767;

thread_local! {
    static FIN: Cell<u32> = const { Cell::new(0) };
    static DROPS: Cell<u32> = const { Cell::new(0) };
    static MADE: RefCell<Option<Cc<Obj>>> = const { RefCell::new(None) };
}

pub struct Obj {
    me: RefCell<Option<Cc<Obj>>>,
    maker: bool,
}

unsafe impl Trace for Obj {
    fn trace(&self, ctx: &mut Context<'_>) {
        self.me.trace(ctx);
    }
}

impl Finalize for Obj {
    fn finalize(&self) {
        if self.maker {
            // an object created inside a finalizer is born "already finalized"
            let c = Cc::new(Obj { me: RefCell::new(None), maker: false });
            MADE.with(|m| *m.borrow_mut() = Some(c));
        } else {
            FIN.with(|f| f.set(f.get() + 1));
        }
    }
}

impl Drop for Obj {
    fn drop(&mut self) {
        if !self.maker {
            DROPS.with(|d| d.set(d.get() + 1));
        }
    }
}

#[derive(Clone, Debug, PartialEq, Eq, Hash, Serialize, Deserialize)]
pub enum LOp {
    Clone,
    Upgrade,
    Downgrade,
    WeakClone,
    Drop,
    WeakDrop,
}

#[derive(Clone, Debug, PartialEq, Eq, Hash, Serialize, Deserialize)]
pub struct LCase {
    /// the object is created inside a finalizer (already finalized)
    pub prefinalized: bool,
    /// the object points to itself (reclaimed by the collector at the end)
    pub self_cycle: bool,
    /// a side record exists from the start
    pub side_record: bool,
    /// strong pointers are brought to `MAX - strong_gap` before the walk (route: 0 clone, 1 upgrade, 2 mixed)
    pub route: u8,
    pub strong_gap: u8,
    /// weak pointers are brought to `MAX_WEAK - weak_gap` before the walk (255 = leave them alone)
    pub weak_gap: u8,
    pub walk: Vec<LOp>,
    /// every `Cc` is released (value dropped, by the counter or - for the self cycle - by the
    /// collector) before the walk; only the `Weak`s remain and the walk runs on a dead allocation
    #[serde(default)]
    pub dead: bool,
}

impl LCase {
    pub fn hash64(&self) -> u64 {
        use std::hash::{Hash, Hasher};
        let mut h = crate::case::Fnv(0xcbf29ce484222325);
        self.hash(&mut h);
        h.finish()
    }
}

pub fn strategy() -> BoxedStrategy<LCase> {
    let op = prop_oneof![
        6 => Just(LOp::Clone),
        5 => Just(LOp::Upgrade),
        4 => Just(LOp::Downgrade),
        4 => Just(LOp::WeakClone),
        4 => Just(LOp::Drop),
        3 => Just(LOp::WeakDrop),
    ];
    (any::<bool>(), any::<bool>(), any::<bool>(), 0u8..3, 0u8..4, prop_oneof![2 => 0u8..4, 1 => Just(255u8)], prop::collection::vec(op, 1..=40), prop::bool::weighted(0.25))
        .prop_map(|(prefinalized, self_cycle, side_record, route, strong_gap, weak_gap, walk, dead)| LCase { prefinalized, self_cycle, side_record, route, strong_gap, weak_gap: if dead && weak_gap == 255 { 1 } else { weak_gap }, walk, dead })
        .boxed()
}

#[derive(Default)]
pub struct LResult {
    pub violations: Vec<Violation>,
    pub hit_strong: u32,
    pub hit_weak: u32,
    pub moved_away_and_back: bool,
    pub log: Vec<String>,
}

/// Every rule belongs to C16; the count rules are also the statements of C04 (strong counts), C09
/// (weak counts, side record) and C08 (upgrade) evaluated at the boundary values.
fn vio(r: &mut LResult, sig: &str, detail: String) {
    let mut props = vec!["C16".to_string()];
    let rule = sig.split('/').next().unwrap();
    match rule {
        "strong-count-after-op" | "drop-count-at-end" | "clone-refused-below-limit" => props.push("C04".into()),
        "weak-count-after-op" | "weak-view-after-op" | "dead-weak-count" | "dead-strong-count" | "weak-clone-refused-below-limit" | "downgrade-refused-below-limit" | "side-record-at-end" => props.push("C09".into()),
        "upgrade-none-on-live" | "upgrade-failed-below-limit" | "upgrade-refused-below-limit" | "alive-after-release" | "dead-upgrade" => props.push("C08".into()),
        _ => {}
    }
    if rule == "strong-count-after-op" || rule == "dead-strong-count" {
        props.push("C08".into());
    }
    if r.violations.len() < 16 {
        r.violations.push(Violation { props, rule: rule.into(), sig: sig.into(), detail, op: -1, hard: false });
    }
}

pub fn run(case: &LCase, logging: bool) -> LResult {
    let mut r = LResult::default();
    FIN.with(|f| f.set(0));
    DROPS.with(|f| f.set(0));
    #[cfg(feature = "auto-collect")]
    let _ = rust_cc::config::config(|c| c.set_auto_collect(false));
    // the object
    // the crate's allocations of this case are tracked: a released box is poisoned and quarantined,
    // so a read through a stale pointer is deterministic instead of undefined
    let _bracket = crate::alloc::Bracket::open();
    let first: Cc<Obj> = if case.prefinalized && cfg!(feature = "finalization") {
        let maker = Cc::new(Obj { me: RefCell::new(None), maker: true });
        drop(maker);
        MADE.with(|m| m.borrow_mut().take()).expect("maker finalizer did not run")
    } else {
        Cc::new(Obj { me: RefCell::new(None), maker: false })
    };
    #[cfg(feature = "finalization")]
    let fin0 = first.already_finalized();
    let mut strong: Vec<Cc<Obj>> = vec![first];
    if case.self_cycle {
        let c = strong[0].clone();
        *strong[0].me.borrow_mut() = Some(c);
    }
    let inner = if case.self_cycle { 1 } else { 0 };
    #[cfg(feature = "weak-ptrs")]
    let mut weak: Vec<Weak<Obj>> = Vec::new();
    #[cfg(feature = "weak-ptrs")]
    if case.side_record || case.route != 0 || case.weak_gap != 255 {
        weak.push(strong[0].downgrade());
    }
    // bring the strong count close to the limit
    let target = MAX_STRONG - case.strong_gap as u32;
    let mut k = 0u32;
    while strong.len() as u32 + inner < target {
        #[cfg(feature = "weak-ptrs")]
        let via_upgrade = case.route == 1 || (case.route == 2 && k % 2 == 0);
        #[cfg(not(feature = "weak-ptrs"))]
        let via_upgrade = false;
        k += 1;
        if via_upgrade {
            #[cfg(feature = "weak-ptrs")]
            match weak[0].upgrade() {
                Some(c) => strong.push(c),
                None => {
                    vio(&mut r, "upgrade-failed-below-limit", format!("upgrade returned None at strong count {}", strong.len() as u32 + inner));
                    break;
                }
            }
        } else {
            strong.push(strong[0].clone());
        }
    }
    #[cfg(feature = "weak-ptrs")]
    if case.weak_gap != 255 {
        let wt = MAX_WEAK - case.weak_gap as u32;
        while (weak.len() as u32) < wt {
            if weak.len() % 2 == 0 {
                weak.push(strong[0].downgrade());
            } else {
                weak.push(weak[0].clone());
            }
        }
    }
    #[cfg(feature = "weak-ptrs")]
    if case.dead {
        run_dead(case, &mut r, strong, weak, logging);
        return r;
    }
    let flags0 = {
        let s = verif::object_snapshot(&strong[0]);
        (s.finalized(), s.has_side_record(), s.mark())
    };
    let mut rec = flags0.1;
    let mut was_at_limit = false;
    let mut left_limit = false;
    // the walk
    for op in &case.walk {
        let sc = strong.len() as u32 + inner;
        #[cfg(feature = "weak-ptrs")]
        let wc = weak.len() as u32;
        let snap0 = verif::object_snapshot(&strong[0]);
        if logging {
            r.log.push(format!("{:?} at strong {} raw {:#x}", op, sc, snap0.raw_counter));
        }
        match op {
            LOp::Clone => {
                let res = catch_unwind(AssertUnwindSafe(|| strong[0].clone()));
                match res {
                    Ok(c) => {
                        if sc >= MAX_STRONG {
                            vio(&mut r, "clone-beyond-limit", format!("clone succeeded at strong count {}", sc));
                        }
                        strong.push(c);
                    }
                    Err(_) => {
                        if sc < MAX_STRONG {
                            vio(&mut r, "clone-refused-below-limit", format!("clone panicked at strong count {}", sc));
                        } else {
                            r.hit_strong += 1;
                        }
                    }
                }
            }
            LOp::Upgrade => {
                #[cfg(feature = "weak-ptrs")]
                if let Some(w0) = weak.first() {
                    let res = catch_unwind(AssertUnwindSafe(|| w0.upgrade()));
                    match res {
                        Ok(Some(c)) => {
                            if sc >= MAX_STRONG {
                                vio(&mut r, "upgrade-beyond-limit", format!("upgrade succeeded at strong count {}", sc));
                            }
                            strong.push(c);
                        }
                        Ok(None) => vio(&mut r, "upgrade-none-on-live", format!("upgrade returned None at strong count {}", sc)),
                        Err(_) => {
                            if sc < MAX_STRONG {
                                vio(&mut r, "upgrade-refused-below-limit", format!("upgrade panicked at strong count {}", sc));
                            } else {
                                r.hit_strong += 1;
                            }
                        }
                    }
                }
            }
            LOp::Downgrade => {
                #[cfg(feature = "weak-ptrs")]
                {
                    let res = catch_unwind(AssertUnwindSafe(|| strong[0].downgrade()));
                    match res {
                        Ok(w) => {
                            if wc >= MAX_WEAK {
                                vio(&mut r, "downgrade-beyond-limit", format!("downgrade succeeded at weak count {}", wc));
                            }
                            weak.push(w);
                        }
                        Err(_) => {
                            if wc < MAX_WEAK {
                                vio(&mut r, "downgrade-refused-below-limit", format!("downgrade panicked at weak count {}", wc));
                            } else {
                                r.hit_weak += 1;
                            }
                        }
                    }
                }
            }
            LOp::WeakClone => {
                #[cfg(feature = "weak-ptrs")]
                if let Some(w0) = weak.first() {
                    let res = catch_unwind(AssertUnwindSafe(|| w0.clone()));
                    match res {
                        Ok(w) => {
                            if wc >= MAX_WEAK {
                                vio(&mut r, "weak-clone-beyond-limit", format!("Weak::clone succeeded at weak count {}", wc));
                            }
                            weak.push(w);
                        }
                        Err(_) => {
                            if wc < MAX_WEAK {
                                vio(&mut r, "weak-clone-refused-below-limit", format!("Weak::clone panicked at weak count {}", wc));
                            } else {
                                r.hit_weak += 1;
                            }
                        }
                    }
                }
            }
            LOp::Drop => {
                if strong.len() > 1 {
                    drop(strong.pop());
                }
            }
            LOp::WeakDrop => {
                #[cfg(feature = "weak-ptrs")]
                if weak.len() > 1 {
                    drop(weak.pop());
                }
            }
        }
        // counts = model, flags untouched
        let sc2 = strong.len() as u32 + inner;
        if sc2 == MAX_STRONG {
            if left_limit && was_at_limit {
                r.moved_away_and_back = true;
            }
            was_at_limit = true;
        } else if was_at_limit {
            left_limit = true;
        }
        let got = strong[0].strong_count();
        if got != sc2 {
            vio(&mut r, "strong-count-after-op", format!("strong_count() = {} after {:?}, {} pointers exist", got, op, sc2));
        }
        #[cfg(feature = "weak-ptrs")]
        {
            let gw = strong[0].weak_count();
            if gw != weak.len() as u32 {
                vio(&mut r, "weak-count-after-op", format!("weak_count() = {} after {:?}, {} weak pointers exist", gw, op, weak.len()));
            }
            if let Some(w0) = weak.first() {
                if w0.strong_count() != sc2 || w0.weak_count() != weak.len() as u32 {
                    vio(&mut r, "weak-view-after-op", format!("Weak reports strong {} weak {}, model {} {}", w0.strong_count(), w0.weak_count(), sc2, weak.len()));
                }
            }
        }
        let s = verif::object_snapshot(&strong[0]);
        #[cfg(feature = "weak-ptrs")]
        {
            rec |= !weak.is_empty();
        }
        if s.finalized() != flags0.0 || s.has_side_record() != rec || s.strong() as u32 != sc2 {
            vio(&mut r, "flag-bits-changed", format!("header word {:#06x} after {:?}: finalized {} (was {}), side record {}, counter {} (model {})", s.raw_counter, op, s.finalized(), flags0.0, s.has_side_record(), s.strong(), sc2));
        }
        #[cfg(feature = "finalization")]
        if strong[0].already_finalized() != fin0 {
            vio(&mut r, "already-finalized-changed", format!("already_finalized() changed after {:?}", op));
        }
    }
    if !r.violations.is_empty() {
        // the counters are wrong: releasing the pointers could free the object early; leak everything
        std::mem::forget(strong);
        #[cfg(feature = "weak-ptrs")]
        std::mem::forget(weak);
        return r;
    }
    // still correctly managed: release everything
    #[cfg(feature = "weak-ptrs")]
    let probe = strong[0].downgrade_or_first(&weak);
    #[cfg(feature = "weak-ptrs")]
    drop(weak);
    let addr = verif::object_snapshot(&strong[0]).box_addr;
    let _ = addr;
    drop(strong);
    collect_cycles();
    collect_cycles();
    let fins = FIN.with(|f| f.get());
    let drops = DROPS.with(|f| f.get());
    let exp_fin = if cfg!(feature = "finalization") && !case.prefinalized { 1 } else { 0 };
    if drops != 1 {
        vio(&mut r, "drop-count-at-end", format!("object dropped {} times after releasing every pointer", drops));
    }
    if fins != exp_fin {
        vio(&mut r, "finalize-count-at-end", format!("object finalized {} times, expected {}", fins, exp_fin));
    }
    #[cfg(feature = "weak-ptrs")]
    if let Some(p) = probe {
        if p.upgrade().is_some() || p.strong_count() != 0 {
            vio(&mut r, "alive-after-release", "a weak pointer still upgrades after every Cc was released".into());
        }
    }
    let bytes = rust_cc::state::allocated_bytes().unwrap_or(1);
    if bytes != 0 {
        vio(&mut r, "bytes-at-end", format!("allocated_bytes() = {} at the end", bytes));
    }
    r
}

/// The walk on a dead allocation: the value is released first (reference counting, or the
/// collector for the self cycle), then only `Weak` operations remain meaningful.
#[cfg(feature = "weak-ptrs")]
fn run_dead(case: &LCase, r: &mut LResult, strong: Vec<Cc<Obj>>, mut weak: Vec<Weak<Obj>>, logging: bool) {
    if weak.is_empty() {
        weak.push(strong[0].downgrade());
    }
    if case.self_cycle {
        drop(strong);
        collect_cycles();
        collect_cycles();
    } else {
        drop(strong);
    }
    let drops = DROPS.with(|f| f.get());
    if drops != 1 {
        vio(r, "drop-count-at-end", format!("object dropped {} times after releasing every Cc (weak pointers remain)", drops));
        std::mem::forget(weak);
        return;
    }
    let bytes = rust_cc::state::allocated_bytes().unwrap_or(1);
    if bytes != 0 {
        vio(r, "bytes-at-end", format!("allocated_bytes() = {} after the value was released", bytes));
    }
    let mut was_at_limit = false;
    let mut left_limit = false;
    for op in &case.walk {
        let wc = weak.len() as u32;
        if logging {
            r.log.push(format!("{:?} on the dead allocation at weak {}", op, wc));
        }
        match op {
            LOp::WeakClone | LOp::Downgrade | LOp::Clone => {
                let res = catch_unwind(AssertUnwindSafe(|| weak[0].clone()));
                match res {
                    Ok(w) => {
                        if wc >= MAX_WEAK {
                            vio(r, "weak-clone-beyond-limit/dead", format!("Weak::clone on a dead allocation succeeded at weak count {}", wc));
                        }
                        weak.push(w);
                    }
                    Err(_) => {
                        if wc < MAX_WEAK {
                            vio(r, "weak-clone-refused-below-limit/dead", format!("Weak::clone on a dead allocation panicked at weak count {}", wc));
                        } else {
                            r.hit_weak += 1;
                        }
                    }
                }
            }
            LOp::Upgrade => {
                let res = catch_unwind(AssertUnwindSafe(|| weak[0].upgrade()));
                match res {
                    Ok(None) => {}
                    Ok(Some(c)) => {
                        vio(r, "dead-upgrade/some", "upgrade of a Weak to a released value returned Some".into());
                        std::mem::forget(c);
                        std::mem::forget(weak);
                        return;
                    }
                    Err(_) => vio(r, "dead-upgrade/panicked", "upgrade of a Weak to a released value panicked".into()),
                }
            }
            LOp::Drop | LOp::WeakDrop => {
                if weak.len() > 1 {
                    drop(weak.pop());
                }
            }
        }
        let wl = weak.len() as u32;
        if wl == MAX_WEAK {
            if left_limit && was_at_limit {
                r.moved_away_and_back = true;
            }
            was_at_limit = true;
        } else if was_at_limit {
            left_limit = true;
        }
        let (gs, gw) = catch_unwind(AssertUnwindSafe(|| (weak[0].strong_count(), weak[0].weak_count()))).unwrap_or((u32::MAX, u32::MAX));
        if gw != wl {
            vio(r, "dead-weak-count", format!("Weak::weak_count() = {} after {:?} on the dead allocation, {} weak pointers exist", gw, op, wl));
        }
        if gs != 0 {
            vio(r, "dead-strong-count", format!("Weak::strong_count() = {} after {:?} although the value was released", gs, op));
        }
        if let Some(w) = weak.last() {
            if catch_unwind(AssertUnwindSafe(|| w.upgrade().map(std::mem::forget).is_some())).unwrap_or(true) {
                vio(r, "dead-upgrade/some-after-op", format!("a Weak to the released value upgrades (or panics) after {:?}", op));
            }
        }
        if !r.violations.is_empty() {
            std::mem::forget(weak);
            return;
        }
    }
    drop(weak);
}

#[cfg(feature = "weak-ptrs")]
trait ProbeExt {
    fn downgrade_or_first(&self, weak: &[Weak<Obj>]) -> Option<Weak<Obj>>;
}

#[cfg(feature = "weak-ptrs")]
impl ProbeExt for Cc<Obj> {
    fn downgrade_or_first(&self, weak: &[Weak<Obj>]) -> Option<Weak<Obj>> {
        if (weak.len() as u32) < MAX_WEAK {
            Some(self.downgrade())
        } else {
            None
        }
    }
}

pub fn run_on_thread(case: &LCase, logging: bool) -> LResult {
    let c = case.clone();
    let r = std::thread::Builder::new().stack_size(1 << 20).spawn(move || run(&c, logging)).expect("spawn").join();
    let av = crate::alloc::take_violations();
    crate::alloc::end_case();
    let r = r.map(|mut r| {
        for v in av {
            let sig = if v.kind == 1 { "allocator/double-free" } else { "allocator/layout-mismatch" };
            r.violations.push(Violation { props: vec!["C16".into(), "C09".into(), "C03".into()], rule: "allocator".into(), sig: sig.into(), detail: format!("{:?}", v), op: -1, hard: false });
        }
        r
    });
    r.unwrap_or_else(|_| {
        let mut r = LResult::default();
        r.violations.push(Violation {
            props: vec!["C16".into()],
            rule: "panic".into(),
            sig: format!("case-panicked/{}", crate::engine::last_panic_loc()),
            detail: "the saturation case panicked outside an expected refusal".into(),
            op: -1,
            hard: true,
        });
        r
    })
}
