//! Case runner: one fresh OS thread per case, result handed back through a channel.

use std::sync::mpsc::{sync_channel, RecvTimeoutError};
use std::time::Duration;

use crate::alloc;
use crate::case::*;
use crate::checks;
use crate::ops;
use crate::world::*;

#[derive(Clone, Debug, Default)]
pub struct RunOpts {
    pub strict: bool,
    pub logging: bool,
    pub known: Vec<String>,
    pub quiesce_mid: bool,
    pub timeout_s: u64,
}

pub enum Outcome {
    Done(CaseResult),
    Hang,
}

fn body(case: &Case, opts: &RunOpts, tx: std::sync::mpsc::SyncSender<CaseResult>) {
    let mut world = World::new(case.faults.clone(), opts.strict, opts.logging, Some(tx.clone()));
    world.known_sigs = opts.known.clone();
    install(world);
    #[cfg(feature = "auto-collect")]
    {
        let auto = case.auto;
        let _ = rust_cc::config::config(|c| c.set_auto_collect(auto));
        w(|w| w.auto_model = auto);
    }
    for (i, op) in case.ops.iter().enumerate() {
        ops::exec_op(i as i32, op);
        if w(|w| w.violations.iter().any(|v| v.hard) || w.violations.len() >= 24) {
            break;
        }
    }
    epilogue(case);
    let res = w(|w| w.take_result(false));
    teardown();
    let _ = tx.send(res);
}

/// End of the program: quiescent collection with the handles still held, then release every
/// root (in table order) and collect to quiescence again.
fn epilogue(case: &Case) {
    let fault_free = case.faults.is_empty();
    if fault_free {
        checks::quiesce("handles held");
    } else {
        for k in 0..2 {
            ops::exec_op(-3 - k, &Op::Collect);
        }
    }
    // release all roots through the ordinary operations (selector 0 = oldest live entry)
    loop {
        let more = w(|w| w.handles.iter().any(|h| h.is_some()) && w.violations.len() < 24);
        if !more {
            break;
        }
        ops::exec_op(-10, &Op::Drop(0));
    }
    loop {
        let more = w(|w| w.looses.iter().any(|h| h.is_some()) && w.violations.len() < 24);
        if !more {
            break;
        }
        ops::exec_op(-11, &Op::DropLoose(0));
    }
    // handles acquired by callbacks during the releases above
    loop {
        let more = w(|w| w.handles.iter().any(|h| h.is_some()) && w.violations.len() < 24);
        if !more {
            break;
        }
        ops::exec_op(-10, &Op::Drop(0));
    }
    if fault_free {
        checks::quiesce("all roots released");
        // weak handles now all fail to upgrade, except to objects that are pinned/leaked
    } else {
        for k in 0..2 {
            ops::exec_op(-5 - k, &Op::Collect);
        }
    }
    loop {
        let more = w(|w| w.cleanables.iter().any(|h| h.is_some()));
        if !more {
            break;
        }
        ops::exec_op(-12, &Op::DropCleanable(0));
    }
    loop {
        let more = w(|w| w.weaks.iter().any(|h| h.is_some()));
        if !more {
            break;
        }
        ops::exec_op(-13, &Op::WeakDrop(0));
    }
    // handles may have been acquired again by callbacks: forget them in teardown
}

fn teardown() {
    if let Some(mut world) = uninstall() {
        for h in world.handles.drain(..).flatten() {
            std::mem::forget(h.cc);
        }
        for l in world.looses.drain(..).flatten() {
            std::mem::forget(l.node);
        }
        #[cfg(feature = "weak-ptrs")]
        for e in world.weaks.drain(..).flatten() {
            std::mem::forget(e.w);
        }
        #[cfg(feature = "cleaners")]
        for e in world.cleanables.drain(..).flatten() {
            std::mem::forget(e.c);
        }
        drop(world);
    }
}

pub fn run_case(case: &Case, opts: &RunOpts) -> Outcome {
    let (tx, rx) = sync_channel::<CaseResult>(2);
    let c = case.clone();
    let o = opts.clone();
    let handle = std::thread::Builder::new()
        .name("case".into())
        .stack_size(4 << 20)
        .spawn(move || body(&c, &o, tx))
        .expect("spawn case thread");
    match rx.recv_timeout(Duration::from_secs(opts.timeout_s.max(1))) {
        Ok(res) => {
            if res.abandoned {
                // the thread is parked for ever; leave its memory alone
                alloc::abandon_case();
                drop(handle);
            } else {
                let _ = handle.join();
                alloc::end_case();
            }
            Outcome::Done(res)
        }
        Err(RecvTimeoutError::Timeout) => {
            alloc::abandon_case();
            Outcome::Hang
        }
        Err(RecvTimeoutError::Disconnected) => {
            // the case thread died without reporting: a harness panic
            let r = handle.join();
            alloc::abandon_case();
            let msg = match r {
                Err(p) => p
                    .downcast_ref::<String>()
                    .cloned()
                    .or_else(|| p.downcast_ref::<&str>().map(|s| s.to_string()))
                    .unwrap_or_else(|| "<panic>".into()),
                Ok(()) => "thread ended without result".into(),
            };
            let mut res = CaseResult::default();
            res.violations.push(Violation {
                props: vec!["HARNESS".into()],
                rule: "harness-panic".into(),
                sig: format!("harness-panic/{}", msg.chars().take(80).collect::<String>()),
                detail: msg,
                op: -1,
                hard: true,
            });
            Outcome::Done(res)
        }
    }
}
