//! Case runner: one fresh OS thread per case, result handed back through a channel.

use std::sync::mpsc::{sync_channel, Receiver, RecvTimeoutError, SyncSender};
use std::time::Duration;

use crate::alloc;
use crate::case::*;
use crate::checks;
use crate::ops;
use crate::world::*;

#[derive(Clone, Debug, Default)]
pub struct RunOpts {
    pub strict: bool,
    pub logging: bool,
    pub known: Vec<String>,
    pub quiesce_mid: bool,
    pub timeout_s: u64,
    pub persist: bool,
    pub prop: String,
    pub config: String,
}

pub enum Outcome {
    Done(CaseResult),
    Hang,
}

fn body(case: &Case, opts: &RunOpts, tx: std::sync::mpsc::SyncSender<CaseResult>) {
    let res = execute(case, opts, Some(tx.clone()), &|_| {});
    let _ = tx.send(res);
}

/// Executes a case on the calling thread (which must have pristine collector state).
/// `between` is called before every operation (used by the thread-interleaving engine).
pub fn execute(case: &Case, opts: &RunOpts, tx: Option<std::sync::mpsc::SyncSender<CaseResult>>, between: &dyn Fn(usize)) -> CaseResult {
    let mut world = World::new(case.faults.clone(), opts.strict, opts.logging, tx);
    world.known_sigs = opts.known.clone();
    install(world);
    #[cfg(feature = "auto-collect")]
    {
        let auto = case.auto;
        let _ = rust_cc::config::config(|c| c.set_auto_collect(auto));
        w(|w| w.auto_model = auto);
    }
    for (i, op) in case.ops.iter().enumerate() {
        between(i);
        ops::exec_op(i as i32, op);
        if w(|w| w.violations.iter().any(|v| v.hard) || w.violations.len() >= 24) {
            break;
        }
    }
    epilogue(case);
    let mut res = w(|w| w.take_result(false));
    let leaked = w(|w| w.any_panic || w.objs.iter().any(|o| o.in_box && !o.dropped) || w.handles.iter().any(|h| h.is_some()));
    teardown();
    res.clean = !leaked && res.violations.is_empty() && pristine();
    res
}

/// End of the program: quiescent collection with the handles still held, then release every
/// root (in table order) and collect to quiescence again.
fn epilogue(case: &Case) {
    let fault_free = case.faults.is_empty();
    if fault_free {
        checks::quiesce("handles held");
    } else {
        for k in 0..2 {
            ops::exec_op(-3 - k, &Op::Collect);
        }
    }
    // release all roots through the ordinary operations (selector 0 = oldest live entry)
    loop {
        let more = w(|w| w.handles.iter().any(|h| h.is_some()) && w.violations.len() < 24);
        if !more {
            break;
        }
        ops::exec_op(-10, &Op::Drop(0));
    }
    loop {
        let more = w(|w| w.looses.iter().any(|h| h.is_some()) && w.violations.len() < 24);
        if !more {
            break;
        }
        ops::exec_op(-11, &Op::DropLoose(0));
    }
    // handles acquired by callbacks during the releases above
    loop {
        let more = w(|w| w.handles.iter().any(|h| h.is_some()) && w.violations.len() < 24);
        if !more {
            break;
        }
        ops::exec_op(-10, &Op::Drop(0));
    }
    if fault_free {
        checks::quiesce("all roots released");
        // weak handles now all fail to upgrade, except to objects that are pinned/leaked
    } else {
        for k in 0..2 {
            ops::exec_op(-5 - k, &Op::Collect);
        }
    }
    // every weak handle is tried once more (C08: never access to a dropped or freed value, also
    // after faults), through the ordinary operation so that the same oracle judges the result
    #[cfg(feature = "weak-ptrs")]
    {
        let n = w(|w| w.weaks.iter().filter(|h| h.is_some()).count());
        for k in 0..n {
            let sel = (((k << 8) + n - 1) / n) as u8;
            ops::exec_op(-14, &Op::Upgrade(sel));
        }
        loop {
            let more = w(|w| w.handles.iter().any(|h| h.is_some()) && w.violations.len() < 24);
            if !more {
                break;
            }
            ops::exec_op(-10, &Op::Drop(0));
        }
    }
    loop {
        let more = w(|w| w.cleanables.iter().any(|h| h.is_some()));
        if !more {
            break;
        }
        ops::exec_op(-12, &Op::DropCleanable(0));
    }
    loop {
        let more = w(|w| w.weaks.iter().any(|h| h.is_some()));
        if !more {
            break;
        }
        ops::exec_op(-13, &Op::WeakDrop(0));
    }
    // handles may have been acquired again by callbacks: forget them in teardown
}

/// Is the collector state of this thread indistinguishable from that of a fresh thread?
fn pristine() -> bool {
    use rust_cc::state;
    #[cfg(feature = "auto-collect")]
    {
        // default configuration; an empty collection lets the policy shrink the threshold back
        let ok = rust_cc::config::config(|c| {
            c.set_auto_collect(true);
            c.set_adjustment_percent(0.1);
            c.set_buffered_objects_threshold(None);
        })
        .is_ok();
        if !ok {
            return false;
        }
        rust_cc::collect_cycles();
        if rust_cc::verif::bytes_threshold() != Some(100) {
            return false;
        }
    }
    state::buffered_objects_count().ok() == Some(0)
        && state::allocated_bytes().ok() == Some(0)
        && rust_cc::verif::state_flags() == Some((false, false, false))
}

fn teardown() {
    if let Some(mut world) = uninstall() {
        for h in world.handles.drain(..).flatten() {
            std::mem::forget(h.cc);
        }
        for l in world.looses.drain(..).flatten() {
            std::mem::forget(l.node);
        }
        #[cfg(feature = "weak-ptrs")]
        for e in world.weaks.drain(..).flatten() {
            std::mem::forget(e.w);
        }
        #[cfg(feature = "cleaners")]
        for e in world.cleanables.drain(..).flatten() {
            std::mem::forget(e.c);
        }
        drop(world);
    }
}

struct Worker {
    jobs: SyncSender<(Case, RunOpts)>,
    results: Receiver<CaseResult>,
    handle: Option<std::thread::JoinHandle<()>>,
}

thread_local! {
    static WORKER: std::cell::RefCell<Option<Worker>> = const { std::cell::RefCell::new(None) };
}

fn spawn_worker() -> Worker {
    let (jtx, jrx) = sync_channel::<(Case, RunOpts)>(1);
    let (rtx, rrx) = sync_channel::<CaseResult>(2);
    let handle = std::thread::Builder::new()
        .name("case".into())
        .stack_size(4 << 20)
        .spawn(move || {
            while let Ok((case, opts)) = jrx.recv() {
                body(&case, &opts, rtx.clone());
            }
        })
        .expect("spawn case thread");
    Worker { jobs: jtx, results: rrx, handle: Some(handle) }
}

/// Runs one case. Collector state is thread-local and cannot be reset, so a case runs on a
/// fresh OS thread -- except that a worker thread whose previous case ended provably pristine
/// (nothing buffered, zero managed bytes, default configuration and threshold, no fault) is
/// reused, which saves most thread creations.
pub fn run_case(case: &Case, opts: &RunOpts) -> Outcome {
    if opts.persist {
        let v = serde_json::json!({"property": opts.prop, "engine": "crash", "configuration": opts.config, "case": case,
            "signature": "process-killed-by-signal", "violations": [], "log": []});
        crate::crash::set_current(serde_json::to_vec(&v).unwrap());
    }
    let mut worker = WORKER.with(|w| w.borrow_mut().take()).unwrap_or_else(spawn_worker);
    worker.jobs.send((case.clone(), opts.clone())).expect("worker gone");
    match worker.results.recv_timeout(Duration::from_secs(opts.timeout_s.max(1))) {
        Ok(res) => {
            if res.abandoned {
                // the thread is parked for ever; leave its memory alone
                alloc::abandon_case();
                drop(worker.handle.take());
            } else if res.clean {
                alloc::end_case();
                WORKER.with(|w| *w.borrow_mut() = Some(worker));
            } else {
                let Worker { jobs, results, handle } = worker;
                drop(jobs);
                if let Some(h) = handle {
                    let _ = h.join();
                }
                drop(results);
                alloc::end_case();
            }
            Outcome::Done(res)
        }
        Err(RecvTimeoutError::Timeout) => {
            alloc::abandon_case();
            Outcome::Hang
        }
        Err(RecvTimeoutError::Disconnected) => {
            // the case thread died without reporting: a harness panic
            let r = worker.handle.take().map(|h| h.join());
            alloc::abandon_case();
            let msg = match r {
                Some(Err(p)) => p
                    .downcast_ref::<String>()
                    .cloned()
                    .or_else(|| p.downcast_ref::<&str>().map(|s| s.to_string()))
                    .unwrap_or_else(|| "<panic>".into()),
                _ => "thread ended without result".into(),
            };
            let msg = format!("{} at {}", msg, crate::engine::last_panic_loc());
            let mut res = CaseResult::default();
            res.violations.push(Violation {
                props: vec!["HARNESS".into()],
                rule: "harness-panic".into(),
                sig: format!("harness-panic/{}", msg.chars().take(80).collect::<String>()),
                detail: msg,
                op: -1,
                hard: true,
            });
            Outcome::Done(res)
        }
    }
}
