//! Shared engine plumbing: evaluation of one generated case (fault-free run, then the faulted
//! run derived from it), accumulation of statistics, known-finding classification.

use std::collections::{BTreeMap, BTreeSet};

use serde_json::json;

use crate::case::*;
use crate::gen::FaultReq;
use crate::run::*;
use crate::world::{CaseResult, Violation};

pub static LAST_PANIC_LOC: std::sync::Mutex<String> = std::sync::Mutex::new(String::new());

/// Quiet panic hook: injected panics are silent; the location of every other panic is kept so
/// that harness bugs can be told apart from panics raised by the crate under test.
pub fn install_quiet_hook() {
    std::panic::set_hook(Box::new(|info| {
        let loc = info.location().map(|l| format!("{}:{}", l.file(), l.line())).unwrap_or_default();
        if let Ok(mut b) = LAST_PANIC_LOC.try_lock() {
            *b = loc;
        }
    }));
}

pub fn last_panic_loc() -> String {
    LAST_PANIC_LOC.lock().map(|b| b.clone()).unwrap_or_default()
}

pub fn load_known(path: &str, prop: &str) -> Vec<String> {
    let mut v = Vec::new();
    if let Ok(text) = std::fs::read_to_string(path) {
        for line in text.lines() {
            let line = line.trim();
            if !line.starts_with("known:") {
                continue;
            }
            let mut p = None;
            let mut s = None;
            for tok in line.split_whitespace() {
                if let Some(x) = tok.strip_prefix("property=") {
                    p = Some(x.to_string());
                }
                if let Some(x) = tok.strip_prefix("signature=") {
                    s = Some(x.to_string());
                }
            }
            if let (Some(p), Some(s)) = (p, s) {
                if p == prop || prop == "*" {
                    v.push(s);
                }
            }
        }
    }
    v
}

pub enum Verdict {
    Pass,
    Fail(String),
    Hang,
}

pub struct Acc {
    pub prop: String,
    pub frozen: bool,
    pub evaluations: u64,
    pub executions: u64,
    pub nontrivial: BTreeSet<u64>,
    pub classes: BTreeMap<String, u64>,
    pub foreign: BTreeMap<String, BTreeMap<String, u64>>,
    pub known_hits: BTreeMap<String, u64>,
    pub samples: Vec<serde_json::Value>,
    /// the first executed case (reported as a sample when no non-trivial one was recorded)
    pub first_case: Option<serde_json::Value>,
    pub hangs: u64,
    pub hang_case: Option<Case>,
    pub harness_errors: u64,
    pub harness_msgs: Vec<String>,
    pub faults_fired: u64,
    pub ops_run: u64,
    pub events: [u64; 5],
}

impl Acc {
    pub fn new(prop: &str) -> Acc {
        Acc {
            prop: prop.to_string(),
            frozen: false,
            evaluations: 0,
            executions: 0,
            nontrivial: BTreeSet::new(),
            classes: BTreeMap::new(),
            foreign: BTreeMap::new(),
            known_hits: BTreeMap::new(),
            samples: Vec::new(),
            first_case: None,
            hangs: 0,
            hang_case: None,
            harness_errors: 0,
            harness_msgs: Vec::new(),
            faults_fired: 0,
            ops_run: 0,
            events: [0; 5],
        }
    }

    /// Folds the result of one executed case in. Returns the first violation owned by the
    /// property of this run that is not a known finding.
    pub fn absorb(&mut self, case: &Case, res: &CaseResult) -> Option<Violation> {
        let mut mine = None;
        for v in &res.violations {
            if v.props.iter().any(|p| p == "HARNESS") {
                if !self.frozen {
                    self.harness_errors += 1;
                    if self.harness_msgs.len() < 5 {
                        self.harness_msgs.push(format!("{} :: {}", v.sig, v.detail));
                    }
                }
                continue;
            }
            if v.props.iter().any(|p| p == &self.prop) {
                if mine.is_none() {
                    mine = Some(v.clone());
                }
            } else if !self.frozen {
                *self.foreign.entry(v.props[0].clone()).or_default().entry(v.sig.clone()).or_insert(0) += 1;
            }
        }
        if self.frozen {
            return mine;
        }
        self.executions += 1;
        if self.first_case.is_none() {
            self.first_case = Some(json!({"case": case, "classes": res.stats.classes, "non_trivial": false}));
        }
        self.faults_fired += res.stats.faults_fired as u64;
        self.ops_run += res.stats.ops_run as u64;
        self.events[0] += res.stats.trace_events as u64;
        self.events[1] += res.stats.fin_events as u64;
        self.events[2] += res.stats.drop_events as u64;
        self.events[3] += res.stats.action_events as u64;
        self.events[4] += res.stats.closure_events as u64;
        for c in &res.stats.classes {
            *self.classes.entry(c.clone()).or_insert(0) += 1;
        }
        for (sig, n) in &res.stats.known_sigs {
            *self.known_hits.entry(sig.clone()).or_insert(0) += *n as u64;
        }
        if res.stats.nontrivial.contains(&self.prop) {
            let h = case.hash64();
            if self.nontrivial.insert(h) && self.samples.len() < 4 {
                self.samples.push(json!({"case": case, "classes": res.stats.classes}));
            }
        }
        mine
    }

    pub fn report(&self, extra: serde_json::Value) -> serde_json::Value {
        json!({
            "prop": self.prop,
            "evaluations": self.evaluations,
            "executions": self.executions,
            "nontrivial_hashes": self.nontrivial.iter().collect::<Vec<_>>(),
            "classes": self.classes,
            "foreign": self.foreign,
            "known_hits": self.known_hits,
            "samples": if self.samples.is_empty() { self.first_case.iter().cloned().collect::<Vec<_>>() } else { self.samples.clone() },
            "hangs": self.hangs,
            "hang_case": self.hang_case,
            "harness_errors": self.harness_errors,
            "harness_msgs": self.harness_msgs,
            "faults_fired": self.faults_fired,
            "ops_run": self.ops_run,
            "events": {"trace": self.events[0], "finalize": self.events[1], "drop": self.events[2], "action": self.events[3], "closure": self.events[4]},
            "extra": extra,
        })
    }
}

/// Turns fault requests (kind, fraction) into concrete faults using the invocation counts of
/// the fault-free run.
pub fn concrete_faults(freq: &[FaultReq], counts: &[u32; NKINDS]) -> Vec<Fault> {
    let mut v: Vec<Fault> = Vec::new();
    for (k, frac) in freq {
        let n = counts[k.idx()];
        if n == 0 {
            continue;
        }
        let nth = ((*frac as u64 * n as u64) >> 16) as u32;
        let f = Fault { kind: *k, nth };
        if !v.contains(&f) {
            v.push(f);
        }
    }
    v
}

/// One generated case: fault-free run first (all rules on), then - if faults were requested -
/// the same program with the faults placed relative to the fault-free invocation counts.
pub fn eval_case(case: &Case, freq: &[FaultReq], opts: &RunOpts, prop: &str, acc: &mut Acc) -> Verdict {
    if acc.hangs > 0 {
        // a hang was seen: do not explore (or shrink) any further, every case would cost a timeout
        return Verdict::Pass;
    }
    if !acc.frozen {
        acc.evaluations += 1;
    }
    let _ = prop;
    let res = match run_case(case, opts) {
        Outcome::Hang => {
            acc.hangs += 1;
            acc.hang_case = Some(case.clone());
            return Verdict::Hang;
        }
        Outcome::Done(r) => r,
    };
    if let Some(v) = acc.absorb(case, &res) {
        return Verdict::Fail(v.sig);
    }
    if freq.is_empty() {
        return Verdict::Pass;
    }
    let faults = concrete_faults(freq, &res.stats.counts);
    if faults.is_empty() {
        return Verdict::Pass;
    }
    let faulted = Case { auto: case.auto, ops: case.ops.clone(), faults };
    let res2 = match run_case(&faulted, opts) {
        Outcome::Hang => {
            acc.hangs += 1;
            acc.hang_case = Some(faulted.clone());
            return Verdict::Hang;
        }
        Outcome::Done(r) => r,
    };
    if let Some(v) = acc.absorb(&faulted, &res2) {
        return Verdict::Fail(v.sig);
    }
    Verdict::Pass
}

/// Re-runs a (shrunk) generated case and returns the concrete case that exhibits the failure
/// (the fault-free one if that already fails, else the faulted one) with its result.
pub fn concretise(case: &Case, freq: &[FaultReq], opts: &RunOpts) -> (Case, Option<CaseResult>) {
    let res = match run_case(case, opts) {
        Outcome::Hang => return (case.clone(), None),
        Outcome::Done(r) => r,
    };
    if !res.violations.is_empty() || freq.is_empty() {
        return (case.clone(), Some(res));
    }
    let faults = concrete_faults(freq, &res.stats.counts);
    if faults.is_empty() {
        return (case.clone(), Some(res));
    }
    let faulted = Case { auto: case.auto, ops: case.ops.clone(), faults };
    match run_case(&faulted, opts) {
        Outcome::Hang => (faulted, None),
        Outcome::Done(r) => (faulted, Some(r)),
    }
}


/// Generic driver for the specialised generators (one value = one case): proptest runner with
/// a fixed seed, accumulation of the measured non-trivial cases, shrinking, replay file.
pub struct SimpleOut {
    pub violations: Vec<Violation>,
    pub nontrivial: bool,
    pub hash: u64,
    pub classes: Vec<String>,
}

pub fn drive<T, S, F>(prop: &str, engine: &str, cfg_name: &str, cases: u32, seed: u64, strat: S, known: &[String], replay_out: Option<&str>, run: F) -> (i32, serde_json::Value)
where
    T: serde::Serialize + Clone + std::fmt::Debug,
    S: proptest::strategy::Strategy<Value = T>,
    F: Fn(&T, bool) -> SimpleOut,
{
    drive_with_fixed(prop, engine, cfg_name, cases, seed, strat, known, replay_out, &[], run)
}

/// Like `drive`, but first executes a fixed (seed-independent, enumerated) list of cases with the
/// same accounting; the generated cases follow only if all of them pass.
pub fn drive_with_fixed<T, S, F>(prop: &str, engine: &str, cfg_name: &str, cases: u32, seed: u64, strat: S, known: &[String], replay_out: Option<&str>, fixed: &[T], run: F) -> (i32, serde_json::Value)
where
    T: serde::Serialize + Clone + std::fmt::Debug,
    S: proptest::strategy::Strategy<Value = T>,
    F: Fn(&T, bool) -> SimpleOut,
{
    use proptest::test_runner::{Config, RngAlgorithm, RngSeed, TestCaseError, TestError, TestRunner};
    let state = std::cell::RefCell::new((0u64, BTreeSet::<u64>::new(), BTreeMap::<String, u64>::new(), Vec::<serde_json::Value>::new(), BTreeMap::<String, u64>::new(), false));
    let mut runner = TestRunner::new(Config {
        cases,
        failure_persistence: None,
        max_shrink_iters: 2000,
        rng_algorithm: RngAlgorithm::ChaCha,
        rng_seed: RngSeed::Fixed(seed),
        ..Config::default()
    });
    let first: std::cell::RefCell<Option<serde_json::Value>> = std::cell::RefCell::new(None);
    let eval = |v: T| {
        let out = run(&v, false);
        let mut st = state.borrow_mut();
        let mut bad = None;
        for vio in &out.violations {
            if known.iter().any(|k| k == &vio.sig) {
                if !st.5 {
                    *st.4.entry(vio.sig.clone()).or_insert(0) += 1;
                }
                continue;
            }
            if vio.props.iter().any(|p| p == prop) && bad.is_none() {
                bad = Some(vio.sig.clone());
            }
        }
        if !st.5 {
            st.0 += 1;
            for c in &out.classes {
                *st.2.entry(c.clone()).or_insert(0) += 1;
            }
            if out.nontrivial && st.1.insert(out.hash) && st.3.len() < 4 {
                st.3.push(serde_json::to_value(&v).unwrap());
            }
            if st.0 == 1 {
                *first.borrow_mut() = Some(serde_json::to_value(&v).unwrap());
            }
        }
        match bad {
            Some(sig) => {
                st.5 = true;
                Err(TestCaseError::fail(sig))
            }
            None => Ok(()),
        }
    };
    let mut result = Ok(());
    let mut fixed_run = 0u64;
    for v in fixed {
        fixed_run += 1;
        if let Err(e) = eval(v.clone()) {
            let msg = match e {
                TestCaseError::Fail(r) | TestCaseError::Reject(r) => r,
            };
            result = Err(TestError::Fail(msg, v.clone()));
            break;
        }
    }
    if result.is_ok() {
        result = runner.run(&strat, |v| eval(v));
    }
    let st = state.into_inner();
    let mut code = 0;
    let mut violation = serde_json::Value::Null;
    match result {
        Ok(()) => {}
        Err(TestError::Fail(reason, v)) => {
            code = 1;
            let out = run(&v, true);
            let sig = out.violations.iter().find(|x| x.props.iter().any(|p| p == prop)).map(|x| x.sig.clone()).unwrap_or(reason.message().to_string());
            let replay = json!({"property": prop, "engine": engine, "configuration": cfg_name, "case": v, "signature": sig, "violations": out.violations});
            if let Some(path) = replay_out {
                let _ = std::fs::write(path, serde_json::to_string_pretty(&replay).unwrap());
            }
            violation = json!({"signature": sig, "replay": replay_out, "violations": out.violations});
        }
        Err(TestError::Abort(r)) => {
            eprintln!("proptest aborted: {}", r);
            code = 2;
        }
    }
    let report = json!({
        "prop": prop, "evaluations": st.0, "executions": st.0,
        "nontrivial_hashes": st.1.iter().collect::<Vec<_>>(),
        "classes": st.2, "foreign": {}, "known_hits": st.4, "samples": if st.3.is_empty() { first.into_inner().into_iter().collect::<Vec<_>>() } else { st.3 }, "hangs": 0, "harness_errors": 0, "harness_msgs": [],
        "events": {},
        "extra": {"engine": engine, "config": cfg_name, "seed": seed, "violation": violation, "fixed_cases": fixed_run},
        "exhaustive": if fixed.is_empty() { serde_json::Value::Null } else { json!({"scope": "fixed grid of the engine (seed-independent)", "cases": fixed_run}) },
    });
    (code, report)
}
