//! Crash persistence: the case being executed is kept, serialised, in a static buffer that a
//! signal handler writes to the replay path with write(2) before the process dies.

use std::ffi::CString;
use std::sync::atomic::{AtomicPtr, AtomicUsize, Ordering};

static BUF: AtomicPtr<u8> = AtomicPtr::new(std::ptr::null_mut());
static LEN: AtomicUsize = AtomicUsize::new(0);
static PATH: AtomicPtr<libc::c_char> = AtomicPtr::new(std::ptr::null_mut());

extern "C" fn handler(sig: libc::c_int) {
    unsafe {
        let path = PATH.load(Ordering::SeqCst);
        let buf = BUF.load(Ordering::SeqCst);
        let len = LEN.load(Ordering::SeqCst);
        if !path.is_null() && !buf.is_null() {
            let fd = libc::open(path, libc::O_WRONLY | libc::O_CREAT | libc::O_TRUNC, 0o644);
            if fd >= 0 {
                let mut off = 0usize;
                while off < len {
                    let n = libc::write(fd, buf.add(off) as *const libc::c_void, len - off);
                    if n <= 0 {
                        break;
                    }
                    off += n as usize;
                }
                libc::close(fd);
            }
        }
        // die with the original signal
        libc::signal(sig, libc::SIG_DFL);
        libc::raise(sig);
    }
}

pub fn install(path: &str) {
    let c = CString::new(path).unwrap();
    PATH.store(c.into_raw(), Ordering::SeqCst);
    unsafe {
        for sig in [libc::SIGSEGV, libc::SIGBUS, libc::SIGABRT, libc::SIGILL, libc::SIGFPE] {
            let mut sa: libc::sigaction = std::mem::zeroed();
            sa.sa_sigaction = handler as usize;
            sa.sa_flags = libc::SA_ONSTACK | libc::SA_NODEFER;
            libc::sigemptyset(&mut sa.sa_mask);
            libc::sigaction(sig, &sa, std::ptr::null_mut());
        }
    }
}

/// Records the case about to be executed (called from the runner thread, never concurrently
/// with a running case).
pub fn set_current(json: Vec<u8>) {
    let len = json.len();
    let ptr = Box::into_raw(json.into_boxed_slice()) as *mut u8;
    let old = BUF.swap(ptr, Ordering::SeqCst);
    let old_len = LEN.swap(len, Ordering::SeqCst);
    if !old.is_null() {
        unsafe {
            drop(Box::from_raw(std::ptr::slice_from_raw_parts_mut(old, old_len)));
        }
    }
}
