//! proptest strategies for heap programs, with weighted operation profiles per property.

use proptest::prelude::*;
use proptest::strategy::Union;

use crate::case::*;

/// Relative weights of the operation kinds.
#[derive(Clone, Debug)]
pub struct Profile {
    pub name: &'static str,
    pub new: u32,
    pub new_cyclic: u32,
    pub clone: u32,
    pub drop: u32,
    pub set_slot: u32,
    pub move_slot: u32,
    pub clear_slot: u32,
    pub take_slot: u32,
    pub mark_alive: u32,
    pub collect: u32,
    pub downgrade: u32,
    pub weak_clone: u32,
    pub weak_drop: u32,
    pub upgrade: u32,
    pub store_weak: u32,
    pub clear_weak: u32,
    pub weak_new: u32,
    pub try_unwrap: u32,
    pub drop_loose: u32,
    pub finalize_again: u32,
    pub register: u32,
    pub clean: u32,
    pub drop_cleanable: u32,
    pub set_config: u32,
    /// probability (percent) that a created object has a finalizer script
    pub p_fin: u32,
    /// probability (percent) that a created object queries its weaks in its destructor
    pub p_dq: u32,
    /// weight of the untraced slot among the 4 slots (traced slots have weight 3 each)
    pub w_untraced: u32,
    pub max_ops: usize,
    pub max_objects_hint: usize,
    /// weight of the *cluster idiom* (a generated sub-program that builds a small object graph
    /// with relative selectors) among the program segments; the single operations weigh ~110
    pub idiom: u32,
    /// weight of the *cleaner burst* idiom (many actions on one cleaner, cleaned, re-registered)
    pub idiom_c: u32,
}

pub const GENERAL: Profile = Profile {
    name: "general",
    new: 14,
    new_cyclic: 3,
    clone: 10,
    drop: 16,
    set_slot: 16,
    move_slot: 4,
    clear_slot: 5,
    take_slot: 3,
    mark_alive: 3,
    collect: 8,
    downgrade: 4,
    weak_clone: 1,
    weak_drop: 2,
    upgrade: 4,
    store_weak: 3,
    clear_weak: 1,
    weak_new: 1,
    try_unwrap: 3,
    drop_loose: 2,
    finalize_again: 2,
    register: 3,
    clean: 2,
    drop_cleanable: 1,
    set_config: 1,
    p_fin: 45,
    p_dq: 25,
    w_untraced: 2,
    max_ops: 40,
    max_objects_hint: 12,
    idiom: 4,
    idiom_c: 1,
};

pub fn profile(name: &str) -> Profile {
    let g = GENERAL;
    match name {
        "general" => g,
        // garbage of every shape, no faults; few weak/cleaner ops
        "garbage" => Profile { name: "garbage", new: 16, set_slot: 22, move_slot: 6, drop: 18, clone: 10, collect: 8, mark_alive: 4, upgrade: 3, downgrade: 3, try_unwrap: 3, register: 1, clean: 1, p_fin: 35, ..g },
        "finalizers" => Profile { name: "finalizers", idiom: 6, p_fin: 85, new: 16, set_slot: 20, drop: 18, collect: 10, finalize_again: 4, downgrade: 5, store_weak: 5, ..g },
        "resurrection" => Profile { name: "resurrection", idiom: 7, p_fin: 90, new: 16, set_slot: 20, drop: 18, collect: 10, downgrade: 6, store_weak: 8, new_cyclic: 6, upgrade: 6, ..g },
        "weak" => Profile { name: "weak", idiom: 7, downgrade: 10, weak_clone: 4, weak_drop: 6, upgrade: 12, store_weak: 10, clear_weak: 2, weak_new: 1, new_cyclic: 6, p_dq: 60, register: 4, clean: 3, try_unwrap: 4, ..g },
        "counts" => Profile { name: "counts", idiom: 1, new: 6, downgrade: 14, weak_clone: 10, weak_drop: 14, upgrade: 8, clone: 10, drop: 16, try_unwrap: 6, new_cyclic: 5, set_slot: 6, collect: 5, max_objects_hint: 4, ..g },
        "cleaners" => Profile { name: "cleaners", idiom_c: 9, register: 14, clean: 10, drop_cleanable: 4, new: 12, set_slot: 12, drop: 16, collect: 8, downgrade: 4, upgrade: 4, ..g },
        "nesting" => Profile { name: "nesting", idiom_c: 3, p_fin: 85, register: 8, clean: 4, new_cyclic: 5, new: 14, set_slot: 16, drop: 18, collect: 8, try_unwrap: 3, finalize_again: 3, set_config: 2, ..g },
        "unwrap" => Profile { name: "unwrap", try_unwrap: 14, drop_loose: 6, clone: 12, drop: 14, downgrade: 6, upgrade: 5, new_cyclic: 5, collect: 6, ..g },
        "cyclic" => Profile { name: "cyclic", new_cyclic: 14, new: 10, set_config: 3, collect: 6, upgrade: 6, drop: 14, set_slot: 12, p_fin: 55, ..g },
        // long histories: more objects, several collections and threshold adaptations per case
        "long" => Profile { name: "long", max_ops: 160, collect: 6, new: 16, set_slot: 18, ..g },
        "counters" => Profile { name: "counters", clone: 12, drop: 16, mark_alive: 8, downgrade: 6, upgrade: 6, try_unwrap: 5, collect: 8, set_slot: 12, p_fin: 20, ..g },
        _ => g,
    }
}

fn slot(p: &Profile) -> impl Strategy<Value = u8> {
    prop_oneof![
        3 => Just(0u8),
        3 => Just(1u8),
        3 => Just(2u8),
        p.w_untraced => Just(3u8),
    ]
}

fn sel() -> impl Strategy<Value = Sel> {
    // biased towards recent handles (high selectors) but covering all
    prop_oneof![
        3 => any::<u8>(),
        2 => 192u8..=255u8,
    ]
}

fn fin_op() -> impl Strategy<Value = FinOp> {
    prop_oneof![
        6 => (0u8..2).prop_map(FinOp::UpgradeOwnWeak),
        8 => (0u8..4).prop_map(FinOp::StashSlot),
        5 => ((0u8..4), (0u8..4)).prop_map(|(a, b)| FinOp::StashNeighbourSlot(a, b)),
        5 => ((0u8..4), sel(), (0u8..4)).prop_map(|(a, h, b)| FinOp::StoreSlotInto(a, h, b)),
        6 => (0u8..4).prop_map(FinOp::DropSlot),
        3 => Just(FinOp::AllocDrop),
        3 => Just(FinOp::AllocStash),
        2 => Just(FinOp::AllocCycleDrop),
        3 => sel().prop_map(FinOp::UpgradeHandle),
        3 => sel().prop_map(FinOp::DropHandle),
        4 => Just(FinOp::Collect),
        2 => sel().prop_map(FinOp::TryUnwrap),
        2 => sel().prop_map(FinOp::FinalizeAgain),
        1 => Just(FinOp::NewCyclic),
        4 => ((0u8..2), (0u8..4)).prop_map(|(ws, s)| FinOp::UpgradeOwnWeakInto(ws, s)),
    ]
}

fn act_op() -> impl Strategy<Value = ActOp> {
    prop_oneof![
        4 => Just(ActOp::DropCaptured),
        3 => Just(ActOp::AllocStash),
        3 => Just(ActOp::AllocDrop),
        4 => Just(ActOp::UpgradeOwner),
        4 => sel().prop_map(ActOp::UpgradeHandle),
        4 => sel().prop_map(ActOp::CleanOther),
        3 => Just(ActOp::Collect),
        2 => Just(ActOp::TryUnwrapCaptured),
    ]
}

fn clo_op() -> impl Strategy<Value = CloOp> {
    prop_oneof![
        6 => (0u8..2).prop_map(CloOp::StoreWeakSelf),
        4 => Just(CloOp::StashWeak),
        3 => Just(CloOp::AllocStash),
        3 => Just(CloOp::Collect),
        4 => ((0u8..4), sel()).prop_map(|(s, h)| CloOp::LinkTo(s, h)),
    ]
}

fn spec(p: &Profile) -> impl Strategy<Value = Spec> {
    let p_fin = p.p_fin;
    let p_dq = p.p_dq;
    (0u32..100, prop::collection::vec(fin_op(), 1..=3), 0u32..100, 1u8..4).prop_map(move |(a, fin, b, dq)| Spec {
        fin: if a < p_fin { fin } else { Vec::new() },
        dq: if b < p_dq { dq } else { 0 },
    })
}

pub fn op(p: &Profile) -> BoxedStrategy<Op> {
    let mut v: Vec<(u32, BoxedStrategy<Op>)> = Vec::new();
    let mut add = |w: u32, s: BoxedStrategy<Op>| {
        if w > 0 {
            v.push((w, s));
        }
    };
    add(p.new, spec(p).prop_map(Op::New).boxed());
    add(p.new_cyclic, (spec(p), prop::collection::vec(clo_op(), 0..=3)).prop_map(|(s, c)| Op::NewCyclic(s, c)).boxed());
    add(p.clone, sel().prop_map(Op::Clone).boxed());
    add(p.drop, sel().prop_map(Op::Drop).boxed());
    add(p.set_slot, (sel(), slot(p), sel()).prop_map(|(h, s, t)| Op::SetSlot { h, s, t }).boxed());
    add(p.move_slot, (sel(), slot(p), sel()).prop_map(|(h, s, t)| Op::MoveSlot { h, s, t }).boxed());
    add(p.clear_slot, (sel(), slot(p)).prop_map(|(h, s)| Op::ClearSlot { h, s }).boxed());
    add(p.take_slot, (sel(), slot(p)).prop_map(|(h, s)| Op::TakeSlot { h, s }).boxed());
    add(p.mark_alive, sel().prop_map(Op::MarkAlive).boxed());
    add(p.collect, Just(Op::Collect).boxed());
    add(p.downgrade, sel().prop_map(Op::Downgrade).boxed());
    add(p.weak_clone, sel().prop_map(Op::WeakClone).boxed());
    add(p.weak_drop, sel().prop_map(Op::WeakDrop).boxed());
    add(p.upgrade, sel().prop_map(Op::Upgrade).boxed());
    add(p.store_weak, (sel(), 0u8..2, sel()).prop_map(|(h, ws, w)| Op::StoreWeak { h, ws, w }).boxed());
    add(p.clear_weak, (sel(), 0u8..2).prop_map(|(h, ws)| Op::ClearWeak { h, ws }).boxed());
    add(p.weak_new, Just(Op::WeakNew).boxed());
    add(p.try_unwrap, sel().prop_map(Op::TryUnwrap).boxed());
    add(p.drop_loose, sel().prop_map(Op::DropLoose).boxed());
    add(p.finalize_again, sel().prop_map(Op::FinalizeAgain).boxed());
    add(
        p.register,
        (sel(), prop::collection::vec(act_op(), 0..=3), prop::option::weighted(0.5, sel()), any::<bool>())
            .prop_map(|(h, act, cap, weak_owner)| Op::Register { h, act, cap, weak_owner })
            .boxed(),
    );
    add(p.clean, sel().prop_map(Op::Clean).boxed());
    add(p.drop_cleanable, sel().prop_map(Op::DropCleanable).boxed());
    add(p.set_config, (any::<bool>(), 0u8..9, 0u8..4).prop_map(|(auto, thr, pct)| Op::SetConfig { auto, thr, pct }).boxed());
    Union::new_weighted(v).boxed()
}

/// A fault request relative to the fault-free run: kind + position as a 16 bit fraction of
/// the number of invocations of that kind.
pub type FaultReq = (Kind, u16);

fn kind() -> impl Strategy<Value = Kind> {
    prop_oneof![
        3 => Just(Kind::Trace),
        4 => Just(Kind::TraceEnd),
        3 => Just(Kind::Finalize),
        3 => Just(Kind::Drop),
        1 => Just(Kind::Action),
        1 => Just(Kind::Closure),
    ]
}

fn rel(op: Op) -> Op {
    Op::Rel(Box::new(op))
}

/// The cluster idiom: a sub-program that creates `m` objects, links them with generated edges
/// (rings, tails, shared nodes, self loops all arise), adds weak edges between members, optionally
/// a cleaner action capturing a member, optionally a *helper* object that holds a `Weak` to one
/// member and is owned by another member through a traced or the untraced slot, then releases
/// some of the member handles and collects. All references use relative selectors (`Op::Rel`),
/// so the structure is built as generated whatever else the program holds. It makes the deep
/// shapes (a finalizer or destructor of an object owned by garbage upgrading a `Weak` to a peer
/// of the same garbage set, ...) frequent instead of a coincidence of ten independent operations.
fn cluster(p: &Profile) -> BoxedStrategy<Vec<Op>> {
    (
        (1usize..=5, prop::collection::vec(spec(p), 5), prop::collection::vec((any::<u8>(), any::<u8>(), slot(p)), 1..=8)),
        prop::option::weighted(0.6, (spec(p), any::<u8>(), any::<u8>(), slot(p), any::<bool>(), prop::bool::weighted(0.7))),
        prop::collection::vec((any::<u8>(), any::<u8>(), 0u8..2), 0..=2),
        prop::option::weighted(0.25, (any::<u8>(), prop::collection::vec(act_op(), 0..=2), any::<u8>(), any::<bool>())),
        (0usize..=5, 0u8..3),
    )
        .prop_map(|((m, specs, edges), helper, weak_edges, cleaner, (drops, collects))| {
            let mut ops = Vec::new();
            for s in specs.iter().take(m) {
                ops.push(Op::New(s.clone()));
            }
            // member i is the (m-1-i)-th most recent handle
            let ri = |i: u8| (m - 1 - (i as usize % m)) as u8;
            for (a, b, s) in edges {
                ops.push(rel(Op::SetSlot { h: ri(a), s, t: ri(b) }));
            }
            for (a, b, ws) in weak_edges {
                ops.push(rel(Op::Downgrade(ri(a))));
                ops.push(rel(Op::StoreWeak { h: ri(b), ws, w: 0 }));
                ops.push(rel(Op::WeakDrop(0)));
            }
            if let Some((host, act, cap, weak_owner)) = cleaner {
                ops.push(rel(Op::Register { h: ri(host), act, cap: Some(ri(cap)), weak_owner }));
            }
            if let Some((zs, k, j, s, drop_weak, by_move)) = helper {
                ops.push(Op::New(zs));
                // the helper is the newest handle now; member i is the (m-i)-th most recent one
                let rj = |i: u8| (m - (i as usize % m)) as u8;
                ops.push(rel(Op::Downgrade(rj(k))));
                ops.push(rel(Op::StoreWeak { h: 0, ws: 0, w: 0 }));
                if drop_weak {
                    ops.push(rel(Op::WeakDrop(0)));
                }
                if by_move {
                    ops.push(rel(Op::MoveSlot { h: rj(j), s, t: 0 }));
                } else {
                    ops.push(rel(Op::SetSlot { h: rj(j), s, t: 0 }));
                    ops.push(rel(Op::Drop(0)));
                }
            }
            for _ in 0..drops.min(m) {
                ops.push(rel(Op::Drop(0)));
            }
            for _ in 0..collects {
                ops.push(Op::Collect);
            }
            ops
        })
        .boxed()
}

/// The cleaner burst: one new object, `k` actions registered on its cleaner at once (the cleaner's
/// slot map grows past its initial capacity), a first round of `clean()` calls (all of them in a
/// generated order, or a subset), `r` further registrations on the same cleaner, a second round of
/// `clean()` calls over old and new cleanables (repeated and stale ones included), then optionally
/// the release of the owner and a collection.
fn cleaner_burst(p: &Profile) -> BoxedStrategy<Vec<Op>> {
    (
        spec(p),
        prop::collection::vec(prop::collection::vec(act_op(), 0..=2), 1..=6),
        (any::<bool>(), prop::collection::vec(any::<u8>(), 0..=8)),
        prop::collection::vec(prop::collection::vec(act_op(), 0..=1), 0..=3),
        prop::collection::vec(any::<u8>(), 0..=5),
        (any::<bool>(), 0u8..2),
    )
        .prop_map(|(host, acts, (all, order), more, second, (release, collects))| {
            let mut ops = vec![Op::New(host)];
            let k = acts.len();
            for a in acts {
                ops.push(rel(Op::Register { h: 0, act: a, cap: None, weak_owner: false }));
            }
            // cleanable i (0-based registration order) is the (n-1-i)-th most recent cleanable
            if all {
                // every action once, in a generated order (rotation + stride), then the extras
                let start = order.first().copied().unwrap_or(0) as usize % k;
                for j in 0..k {
                    ops.push(rel(Op::Clean(((start + j) % k) as u8)));
                }
            } else {
                for x in &order {
                    ops.push(rel(Op::Clean(*x % k as u8)));
                }
            }
            let r = more.len();
            for a in more {
                ops.push(rel(Op::Register { h: 0, act: a, cap: None, weak_owner: false }));
            }
            for x in second {
                ops.push(rel(Op::Clean(x % (k + r) as u8)));
            }
            if release {
                ops.push(rel(Op::Drop(0)));
            }
            for _ in 0..collects {
                ops.push(Op::Collect);
            }
            ops
        })
        .boxed()
}

pub fn case(p: &Profile, max_faults: usize) -> BoxedStrategy<(Case, Vec<FaultReq>)> {
    let max_ops = p.max_ops;
    let single: u32 = 110;
    let segment = if p.idiom > 0 {
        prop_oneof![
            single => op(p).prop_map(|o| vec![o]),
            p.idiom => cluster(p),
            p.idiom_c.max(1) => cleaner_burst(p),
        ]
        .boxed()
    } else {
        op(p).prop_map(|o| vec![o]).boxed()
    };
    (
        prop::bool::weighted(0.6),
        prop::collection::vec(segment, 1..=max_ops),
        prop::collection::vec((kind(), any::<u16>()), 0..=max_faults),
    )
        .prop_map(move |(auto, segs, freq)| {
            let mut ops: Vec<Op> = segs.into_iter().flatten().collect();
            ops.truncate(max_ops + 24);
            (Case { auto, ops, faults: Vec::new() }, freq)
        })
        .boxed()
}
