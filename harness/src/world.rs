//! The instrumented world: payload type, callbacks, shadow graph, rules.
//!
//! Every `Cc`/`Weak`/`Cleanable` that exists is created, moved and destroyed by code in this
//! module, so the *shadow graph* kept here is the ground truth about which pointers exist.
//! Every user callback the crate can invoke is defined here: it validates the canary first,
//! logs an event, evaluates the instant rules, injects a fault if the plan says so, and then
//! runs its generated script of re-entrant API calls.

use std::cell::{Cell, RefCell};
use std::collections::{BTreeMap, BTreeSet};
use std::sync::atomic::{AtomicU32, Ordering};
use std::sync::mpsc::SyncSender;

use rust_cc::{collect_cycles, state, verif, Cc, Context, Finalize, Trace};
#[cfg(feature = "weak-ptrs")]
use rust_cc::weak::Weak;
#[cfg(feature = "cleaners")]
use rust_cc::cleaners::{Cleanable, Cleaner};

use serde::{Deserialize, Serialize};

use crate::alloc::{self, Bracket};
use crate::case::*;

pub type Oid = u32;

pub const LIVE: u64 = 0x11FE_C0DE_A11F_E001;
pub const DEAD: u64 = 0xDEAD_0B1E_C7DE_AD00;
pub const POISON64: u64 = 0xDDDD_DDDD_DDDD_DDDD;

pub static EPOCH: AtomicU32 = AtomicU32::new(1);
/// number of threads currently inside a collection request, and the maximum seen (C19 evidence)
pub static IN_COLLECT: AtomicU32 = AtomicU32::new(0);
pub static MAX_IN_COLLECT: AtomicU32 = AtomicU32::new(0);

pub const NSLOTS: usize = 4; // 0..3 traced, 3 untraced
pub const UNTRACED: usize = 3;

/// The payload of every managed object of heap programs.
pub struct Node {
    pub canary: Cell<u64>,
    pub id: Oid,
    pub epoch: u32,
    pub traced: [RefCell<Option<Cc<Node>>>; 3],
    pub untraced: RefCell<Option<Cc<Node>>>,
    #[cfg(feature = "weak-ptrs")]
    pub weaks: [RefCell<Option<Weak<Node>>>; 2],
    #[cfg(feature = "cleaners")]
    pub cleaner: Cleaner,
}

impl Node {
    pub fn new(id: Oid, epoch: u32) -> Node {
        Node {
            canary: Cell::new(LIVE),
            id,
            epoch,
            traced: [RefCell::new(None), RefCell::new(None), RefCell::new(None)],
            untraced: RefCell::new(None),
            #[cfg(feature = "weak-ptrs")]
            weaks: [RefCell::new(None), RefCell::new(None)],
            #[cfg(feature = "cleaners")]
            cleaner: Cleaner::new(),
        }
    }

    #[inline]
    pub fn slot(&self, s: usize) -> &RefCell<Option<Cc<Node>>> {
        if s < 3 {
            &self.traced[s]
        } else {
            &self.untraced
        }
    }
}

// ------------------------------------------------------------------------------------------
// results

#[derive(Clone, Debug, Serialize, Deserialize)]
pub struct Violation {
    /// properties this violation counts for (first = owner of the rule)
    pub props: Vec<String>,
    pub rule: String,
    /// rule + salient context: identifies the failure class
    pub sig: String,
    pub detail: String,
    pub op: i32,
    pub hard: bool,
}

#[derive(Clone, Debug, Default, Serialize, Deserialize)]
pub struct Stats {
    pub ops_run: u32,
    pub objects: u32,
    pub collections: u32,
    pub nested_requests: u32,
    pub plain_drop_collections: u32,
    pub trace_events: u32,
    pub fin_events: u32,
    pub drop_events: u32,
    pub action_events: u32,
    pub closure_events: u32,
    pub faults_fired: u32,
    pub faults_in_collector: u32,
    pub collector_reclaimed: u32,
    pub rc_reclaimed: u32,
    pub unwrap_ok: u32,
    pub unwrap_err: u32,
    pub resurrections: u32,
    pub resurrected_used: u32,
    pub cycles_reclaimed: u32,
    pub upgrades_some: u32,
    pub upgrades_none: u32,
    pub upgrades_in_destructor: u32,
    pub upgrades_in_action: u32,
    pub upgrades_in_finalizer: u32,
    pub auto_collections: u32,
    pub known_sigs: BTreeMap<String, u32>,
    pub counts: [u32; NKINDS],
    /// property ids for which this case met the property's non-triviality rule
    pub nontrivial: BTreeSet<String>,
    /// free-form class labels of this case (for the class distribution)
    pub classes: BTreeSet<String>,
}

#[derive(Clone, Debug, Default, Serialize, Deserialize)]
pub struct CaseResult {
    pub violations: Vec<Violation>,
    pub stats: Stats,
    pub abandoned: bool,
    /// the thread's collector state was pristine after the case (the worker thread can be reused)
    pub clean: bool,
    pub log: Vec<String>,
}

// ------------------------------------------------------------------------------------------
// shadow graph

#[derive(Clone, Copy, Debug)]
pub struct Edge {
    pub to: Oid,
    pub born: u64,
}

#[derive(Clone, Copy, Debug, PartialEq, Eq)]
pub enum Fk {
    Trace,
    Finalize,
    Drop,
    Action,
    Closure,
}

#[derive(Clone, Copy, Debug)]
pub struct Frame {
    pub kind: Fk,
    pub oid: Oid,
    /// the collector was running (hook: `collecting` flag) when the callback was entered
    pub collecting: bool,
    /// for Drop frames: the object was in a collector list when its destructor was entered
    pub in_batch: bool,
    /// for Action frames: run by a `clean()` call (not by the destruction of the cleaner)
    pub manual: bool,
}

pub struct Obj {
    pub id: Oid,
    pub spec: Spec,
    pub payload: usize,
    pub box_addr: usize,
    pub box_size: usize,
    pub box_align: usize,
    pub in_box: bool,
    pub loose: bool,
    pub uninit: bool,
    pub never_init: bool,
    pub moved_out: bool,
    pub dropped: bool,
    pub drop_count: u32,
    pub drop_call: u64,
    pub drop_in_collector: bool,
    pub fin_count: u32,
    pub fin_allowed: u32,
    pub model_finalized: bool,
    pub born_in_finalizer: bool,
    pub slots: [Option<Edge>; NSLOTS],
    pub wslots: [Option<Option<Oid>>; 2],
    pub tainted: bool,
    pub born_call: u64,
    pub resurrected: bool,
    pub was_buffered_or_collected: bool,
    pub zeroed_call: u64,
    pub side_rec: usize,
    pub map_box: usize,
    pub map_size: usize,
    pub actions: Vec<usize>,
    pub cyclic: bool,
    pub release_reported: bool,
    pub rec_reported: bool,
    pub res_used: bool,
    pub lost_ptr: bool,
    /// API call in which a `Weak::upgrade` to this object last succeeded
    pub upgraded_call: u64,
    pub first_trace_call: u64,
    pub unbuffer_ops: u32,
    pub manual_cleans: u32,
    /// a Cc to this object was being dropped when a panic unwound the call: its count may stay too high
    pub slack: bool,
}

pub struct HandleE {
    pub oid: Oid,
    pub cc: Cc<Node>,
    pub born: u64,
}

#[cfg(feature = "weak-ptrs")]
pub struct WeakE {
    pub target: Option<Oid>,
    pub w: Weak<Node>,
}
#[cfg(not(feature = "weak-ptrs"))]
pub struct WeakE {
    pub target: Option<Oid>,
}

pub struct LooseE {
    pub oid: Oid,
    pub node: Box<Node>,
}

pub struct ActionM {
    pub owner: Oid,
    pub script: Vec<ActOp>,
    pub captured: Option<Oid>,
    pub weak_owner: bool,
    pub runs: u32,
    pub manual: bool,
    pub done: bool,
    pub reported: bool,
}

#[cfg(feature = "cleaners")]
pub struct CleanE {
    pub aid: usize,
    pub c: Cleanable,
}
#[cfg(not(feature = "cleaners"))]
pub struct CleanE {
    pub aid: usize,
}

#[derive(Clone, Debug)]
pub struct Attempt {
    pub target: Oid,
    pub ctx: Fk,
    pub sig: String,
    pub call: u64,
    pub ev: u64,
}

pub struct World {
    pub epoch: u32,
    pub strict: bool,
    pub objs: Vec<Obj>,
    pub handles: Vec<Option<HandleE>>,
    pub weaks: Vec<Option<WeakE>>,
    pub looses: Vec<Option<LooseE>>,
    pub cleanables: Vec<Option<CleanE>>,
    pub actions: Vec<ActionM>,
    pub inflight: BTreeMap<Oid, u32>,
    pub extra_weak: BTreeMap<Oid, u32>, // weak pointers held by running closures / action environments
    pub frames: Vec<Frame>,
    pub call: u64,
    pub ev: u64,
    pub op: i32,
    pub last_trace_ev: Option<u64>,
    pub faults: Vec<Fault>,
    pub counts: [u32; NKINDS],
    pub any_panic: bool,
    pub panicked_this_call: bool,
    pub exec_before: usize,
    pub trace_in_call: bool,
    pub callbacks_in_call: u64,
    pub budget_exceeded: bool,
    pub created_in_call: u64,
    pub attempts: Vec<Attempt>,
    pub violations: Vec<Violation>,
    pub stats: Stats,
    pub log: Vec<String>,
    pub logging: bool,
    pub auto_model: bool,
    pub map_size_const: usize,
    pub tx: Option<SyncSender<CaseResult>>,
    pub finalization: bool,
    pub fin_seen_in_call: u32,
    pub drop_seen_in_call: u32,
    pub collect_depth: u32,
    pub clean_calls: Vec<usize>,
    /// the action each running `clean()` call was issued for (parallel to `clean_calls`)
    pub clean_aids: Vec<usize>,
    /// API call in which a finalizer last started a resurrecting pointer operation
    pub fin_res_op_call: u64,
    /// handle-table indices borrowed by an API call in progress: callbacks must not consume them
    pub pinned: Vec<usize>,
    /// targets of the edges of objects dropped in the current call (released by drop glue)
    pub glue_targets: Vec<Oid>,
    /// a callback manipulated pointers in the current call (the exact buffered-set prediction is
    /// only claimed for calls whose callbacks do not)
    pub ptr_ops_in_callbacks: bool,
    pub cur_op_kind: u8,
    pub cur_owner: &'static str,
    pub bytes_unknown: bool,
    pub known_sigs: Vec<String>,
    pub known_hit_sigs: BTreeSet<String>,
    pub flags: Flags,
}

/// Measured facts about the case, from which the per-property non-triviality is derived.
#[derive(Default, Clone, Debug)]
pub struct Flags {
    pub c01_pending: bool,
    pub c01: bool,
    pub c02: bool,
    pub c04: bool,
    pub c05: bool,
    pub c07_fault_deep: bool,
    pub c07: bool,
    pub c08_batch: bool,
    pub c09_dead_query: bool,
    pub c10: bool,
    pub c11_changes: u32,
    pub c11_kinds: BTreeSet<u8>,
    pub c11_last: usize,
    pub c13_ok_hist: bool,
    pub c14: bool,
    pub fin_in_collector_call: u32,
    pub rc_drops_in_call: u32,
    pub rc_drop_hist_in_call: bool,
    pub collector_drops_in_call: u32,
    pub res_in_call: u32,
    pub c06_partial: bool,
    pub fault_call: u64,
    pub c05_rc_hist: bool,
}

thread_local! {
    static WORLD: RefCell<Option<Box<World>>> = const { RefCell::new(None) };
    /// C11: model of the set of buffered Node objects, maintained by the documented rules
    /// (kept outside `World` because some pointer primitives run while the world is borrowed)
    pub static BUF_MODEL: RefCell<BTreeSet<Oid>> = const { RefCell::new(BTreeSet::new()) };
}

pub fn buf_enter(oid: Oid) {
    let _s = Bracket::suspend();
    let _ = BUF_MODEL.try_with(|b| b.borrow_mut().insert(oid));
}

pub fn buf_leave(oid: Oid) {
    let _s = Bracket::suspend();
    let _ = BUF_MODEL.try_with(|b| b.borrow_mut().remove(&oid));
}

pub fn buf_set(set: BTreeSet<Oid>) {
    let _s = Bracket::suspend();
    let _ = BUF_MODEL.try_with(|b| *b.borrow_mut() = set);
}

pub fn buf_get() -> BTreeSet<Oid> {
    let _s = Bracket::suspend();
    BUF_MODEL.try_with(|b| b.borrow().clone()).unwrap_or_default()
}

/// Runs `f` with the world of the current thread. Never call a rust-cc API that can invoke
/// callbacks from inside `f`.
#[inline]
pub fn w<R>(f: impl FnOnce(&mut World) -> R) -> R {
    let _s = Bracket::suspend();
    WORLD.with(|c| {
        let mut b = c.borrow_mut();
        f(b.as_mut().expect("no world on this thread"))
    })
}

#[inline]
fn try_w<R>(f: impl FnOnce(&mut World) -> R) -> Option<R> {
    let _s = Bracket::suspend();
    WORLD
        .try_with(|c| match c.try_borrow_mut() {
            Ok(mut b) => b.as_mut().map(|w| f(w)),
            Err(_) => None,
        })
        .ok()
        .flatten()
}

pub fn install(world: World) {
    buf_set(BTreeSet::new());
    WORLD.with(|c| *c.borrow_mut() = Some(Box::new(world)));
}

pub fn uninstall() -> Option<Box<World>> {
    WORLD.with(|c| c.borrow_mut().take())
}

pub const FINALIZATION: bool = cfg!(feature = "finalization");
pub const WEAK: bool = cfg!(feature = "weak-ptrs");
pub const CLEANERS: bool = cfg!(feature = "cleaners");
pub const AUTO: bool = cfg!(feature = "auto-collect");

fn fk_name(k: Fk) -> &'static str {
    match k {
        Fk::Trace => "trace",
        Fk::Finalize => "finalize",
        Fk::Drop => "drop",
        Fk::Action => "action",
        Fk::Closure => "closure",
    }
}

impl World {
    pub fn new(faults: Vec<Fault>, strict: bool, logging: bool, tx: Option<SyncSender<CaseResult>>) -> World {
        World {
            epoch: EPOCH.fetch_add(1, Ordering::Relaxed),
            strict,
            objs: Vec::new(),
            handles: Vec::new(),
            weaks: Vec::new(),
            looses: Vec::new(),
            cleanables: Vec::new(),
            actions: Vec::new(),
            inflight: BTreeMap::new(),
            extra_weak: BTreeMap::new(),
            frames: Vec::new(),
            call: 0,
            ev: 0,
            op: -1,
            last_trace_ev: None,
            faults,
            counts: [0; NKINDS],
            any_panic: false,
            panicked_this_call: false,
            exec_before: 0,
            trace_in_call: false,
            callbacks_in_call: 0,
            budget_exceeded: false,
            created_in_call: 0,
            attempts: Vec::new(),
            violations: Vec::new(),
            stats: Stats::default(),
            log: Vec::new(),
            logging,
            auto_model: true,
            map_size_const: 0,
            tx,
            finalization: FINALIZATION,
            fin_seen_in_call: 0,
            drop_seen_in_call: 0,
            collect_depth: 0,
            clean_calls: Vec::new(),
            clean_aids: Vec::new(),
            fin_res_op_call: 0,
            pinned: Vec::new(),
            glue_targets: Vec::new(),
            ptr_ops_in_callbacks: false,
            cur_op_kind: 0,
            cur_owner: "C04",
            bytes_unknown: false,
            known_sigs: Vec::new(),
            known_hit_sigs: BTreeSet::new(),
            flags: Flags::default(),
        }
    }

    #[inline]
    pub fn note(&mut self, f: impl FnOnce() -> String) {
        if self.logging {
            let depth = self.frames.len();
            let s = f();
            let line = format!("{:>3} {}{}", self.op, "  ".repeat(depth), s);
            if self.strict {
                println!("{}", line);
            }
            self.log.push(line);
        }
    }

    pub fn violation(&mut self, props: &[&str], rule: &str, sig: String, detail: String, hard: bool) {
        let mut props: Vec<String> = props.iter().map(|s| s.to_string()).collect();
        // every safety rule that fires after a caught fault also counts for C07
        if self.any_panic {
            let safety = props.iter().any(|p| matches!(p.as_str(), "C01" | "C03" | "C05" | "C08"));
            if safety && !props.iter().any(|p| p == "C07") {
                props.push("C07".to_string());
            }
        }
        if self.known(&sig) {
            *self.stats.known_sigs.entry(sig.clone()).or_insert(0) += 1;
            self.note(|| format!("known finding hit: {} :: {}", sig, detail));
            return;
        }
        if self.violations.len() < 32 {
            let op = self.op;
            self.note(|| format!("!! VIOLATION {:?} {} :: {}", props, sig, detail));
            self.violations.push(Violation { props, rule: rule.to_string(), sig, detail, op, hard });
        }
    }

    /// A hard violation: the process state of this thread is not trustworthy any more.
    /// Reports the result of the case and parks the thread for ever.
    pub fn hard(&mut self, props: &[&str], rule: &str, sig: String, detail: String) -> ! {
        self.violation(props, rule, sig, detail, true);
        self.abandon()
    }

    pub fn abandon(&mut self) -> ! {
        let res = self.take_result(true);
        if let Some(tx) = self.tx.take() {
            let _ = tx.send(res);
        }
        loop {
            std::thread::park();
        }
    }

    pub fn take_result(&mut self, abandoned: bool) -> CaseResult {
        self.stats.counts = self.counts;
        self.stats.objects = self.objs.len() as u32;
        self.finish_flags();
        CaseResult {
            violations: std::mem::take(&mut self.violations),
            stats: std::mem::take(&mut self.stats),
            abandoned,
            clean: false,
            log: std::mem::take(&mut self.log),
        }
    }

    /// Derives, from what was measured during the execution, for which properties this case
    /// was non-trivial (the rules are stated in DESIGN.md section 5 and in the evidence files).
    fn finish_flags(&mut self) {
        let st = &self.stats;
        let f = &self.flags;
        let mut nt: Vec<&str> = Vec::new();
        if f.c01 {
            nt.push("C01");
        }
        if f.c02 && !self.any_panic {
            nt.push("C02");
        }
        if st.collector_reclaimed > 0 && (st.rc_reclaimed > 0 || st.unwrap_ok > 0) {
            nt.push("C03");
        }
        if f.c04 {
            nt.push("C04");
        }
        if f.c05 || f.c05_rc_hist {
            nt.push("C05");
        }
        if f.c06_partial && st.resurrected_used > 0 {
            nt.push("C06");
        }
        if f.c07 {
            nt.push("C07");
        }
        if f.c08_batch || (st.upgrades_some > 0 && st.upgrades_none > 0) {
            nt.push("C08");
        }
        if f.c09_dead_query {
            nt.push("C09");
        }
        if f.c10 {
            nt.push("C10");
        }
        if f.c11_changes >= 4 && f.c11_kinds.len() >= 3 {
            nt.push("C11");
        }
        if st.plain_drop_collections > 0 || st.nested_requests > 0 {
            nt.push("C12");
        }
        if f.c13_ok_hist && st.unwrap_err > 0 {
            nt.push("C13");
        }
        if f.c14 {
            nt.push("C14");
        }
        let mut classes: Vec<&str> = Vec::new();
        if st.collector_reclaimed > 0 { classes.push("collector-reclaimed"); }
        if st.cycles_reclaimed > 0 { classes.push("cycle-reclaimed"); }
        if st.resurrections > 0 { classes.push("resurrection"); }
        if st.nested_requests > 0 { classes.push("nested-collect-request"); }
        if st.plain_drop_collections > 0 { classes.push("collection-from-plain-drop"); }
        if st.upgrades_in_destructor > 0 { classes.push("upgrade-in-destructor"); }
        if st.upgrades_in_action > 0 { classes.push("upgrade-in-action"); }
        if st.upgrades_in_finalizer > 0 { classes.push("upgrade-in-finalizer"); }
        if st.auto_collections > 0 { classes.push("auto-collection"); }
        if st.unwrap_ok > 0 { classes.push("unwrap-ok"); }
        if st.faults_fired > 0 { classes.push("fault-fired"); }
        if st.faults_in_collector > 0 { classes.push("fault-in-collector"); }
        if st.action_events > 0 { classes.push("action-ran"); }
        for c in classes {
            self.stats.classes.insert(c.to_string());
        }
        for p in nt {
            self.stats.nontrivial.insert(p.to_string());
        }
    }

    // ---- selectors ------------------------------------------------------------------

    pub fn pick<T>(table: &[Option<T>], sel: Sel) -> Option<usize> {
        let n = table.iter().filter(|e| e.is_some()).count();
        if n == 0 {
            return None;
        }
        let k = (sel as usize * n) >> 8;
        table.iter().enumerate().filter(|(_, e)| e.is_some()).nth(k).map(|(i, _)| i)
    }

    // ---- shadow queries -------------------------------------------------------------

    /// Has this object's value live outgoing edges (value constructed and not yet dropped)?
    #[inline]
    fn edges_live(o: &Obj) -> bool {
        !o.dropped && !o.uninit && !o.never_init
    }

    pub fn shadow_strong(&self, oid: Oid) -> u32 {
        let mut n = 0;
        for h in self.handles.iter().flatten() {
            if h.oid == oid {
                n += 1;
            }
        }
        for o in &self.objs {
            if Self::edges_live(o) {
                for e in o.slots.iter().flatten() {
                    if e.to == oid {
                        n += 1;
                    }
                }
            }
        }
        for a in &self.actions {
            if !a.done && a.captured == Some(oid) {
                n += 1;
            }
        }
        n + self.inflight.get(&oid).copied().unwrap_or(0)
    }

    pub fn shadow_strong_no_inflight(&self, oid: Oid) -> u32 {
        self.shadow_strong(oid) - self.inflight.get(&oid).copied().unwrap_or(0)
    }

    pub fn shadow_weak(&self, oid: Oid) -> u32 {
        let mut n = 0;
        for wk in self.weaks.iter().flatten() {
            if wk.target == Some(oid) {
                n += 1;
            }
        }
        for o in &self.objs {
            if Self::edges_live(o) {
                for t in o.wslots.iter().flatten() {
                    if *t == Some(oid) {
                        n += 1;
                    }
                }
            }
        }
        n + self.extra_weak.get(&oid).copied().unwrap_or(0)
    }

    /// Objects reachable from program-held pointers. `cutoff`: ignore roots and edges created
    /// after that event serial.
    pub fn reach(&self, cutoff: Option<u64>) -> BTreeSet<Oid> {
        let ok = |born: u64| cutoff.map_or(true, |c| born <= c);
        let mut seen = BTreeSet::new();
        let mut stack: Vec<Oid> = Vec::new();
        for h in self.handles.iter().flatten() {
            if ok(h.born) && seen.insert(h.oid) {
                stack.push(h.oid);
            }
        }
        for l in self.looses.iter().flatten() {
            if seen.insert(l.oid) {
                stack.push(l.oid);
            }
        }
        while let Some(x) = stack.pop() {
            let o = &self.objs[x as usize];
            if Self::edges_live(o) {
                for e in o.slots.iter().flatten() {
                    if ok(e.born) && seen.insert(e.to) {
                        stack.push(e.to);
                    }
                }
                for &aid in &o.actions {
                    let a = &self.actions[aid];
                    if !a.done {
                        if let Some(t) = a.captured {
                            if seen.insert(t) {
                                stack.push(t);
                            }
                        }
                    }
                }
            }
        }
        seen
    }

    /// Objects reachable from `from` (inclusive) over all live edges.
    pub fn reach_from(&self, from: Oid) -> BTreeSet<Oid> {
        let mut seen = BTreeSet::new();
        let mut stack = vec![from];
        seen.insert(from);
        while let Some(x) = stack.pop() {
            let o = &self.objs[x as usize];
            if Self::edges_live(o) {
                for e in o.slots.iter().flatten() {
                    if seen.insert(e.to) {
                        stack.push(e.to);
                    }
                }
                for &aid in &o.actions {
                    let a = &self.actions[aid];
                    if !a.done {
                        if let Some(t) = a.captured {
                            if seen.insert(t) {
                                stack.push(t);
                            }
                        }
                    }
                }
            }
        }
        seen
    }

    pub fn known(&self, sig: &str) -> bool {
        self.known_sigs.iter().any(|k| k == sig)
    }

    pub fn in_frame(&self, k: Fk) -> bool {
        self.frames.iter().any(|f| f.kind == k)
    }

    /// Is the crate inside a finalizer, a destructor (including its drop glue, where cleaning
    /// actions run) or a collector callback?
    pub fn restricted(&self) -> bool {
        self.frames.iter().any(|f| match f.kind {
            Fk::Finalize | Fk::Drop | Fk::Trace => true,
            Fk::Action => !f.manual || f.collecting,
            Fk::Closure => false,
        }) || self.frames.iter().any(|f| f.collecting)
    }

    pub fn in_collector_callback(&self) -> bool {
        self.frames.iter().any(|f| f.collecting)
    }

    fn describe(&self, oid: Oid) -> String {
        let o = &self.objs[oid as usize];
        format!(
            "obj{}[box={} dropped={} fin={} shadow_strong={} tainted={} resurrected={}]",
            oid,
            o.in_box,
            o.dropped,
            o.fin_count,
            self.shadow_strong(oid),
            o.tainted,
            o.resurrected
        )
    }

    fn stack_sig(&self) -> String {
        let mut s = String::new();
        for f in &self.frames {
            if !s.is_empty() {
                s.push('>');
            }
            s.push_str(fk_name(f.kind));
            if f.collecting {
                s.push('*');
            }
        }
        if s.is_empty() {
            s.push_str("top");
        }
        s
    }
}

// ------------------------------------------------------------------------------------------
// callbacks

/// Pops the callback frame when the callback returns or unwinds.
struct FrameGuard;
impl Drop for FrameGuard {
    fn drop(&mut self) {
        let _ = try_w(|w| {
            w.frames.pop();
        });
    }
}

/// Canary validation: returns the state of the value at `node`.
#[derive(PartialEq, Eq, Debug, Clone, Copy)]
enum Canary {
    Live,
    Dead,
    Poison,
    Garbage(u64),
}

#[inline]
fn canary_of(node: &Node) -> Canary {
    match node.canary.get() {
        LIVE => Canary::Live,
        DEAD => Canary::Dead,
        POISON64 => Canary::Poison,
        x => Canary::Garbage(x),
    }
}

fn hook_flags() -> (bool, bool, bool) {
    verif::state_flags().unwrap_or((false, false, false))
}

/// Decides whether the current invocation of callback `kind` must panic (fault injection).
pub fn fault_due(w: &mut World, kind: Kind) -> bool {
    let i = kind.idx();
    let n = w.counts[i];
    w.counts[i] += 1;
    if std::thread::panicking() {
        return false;
    }
    if let Some(pos) = w.faults.iter().position(|f| f.kind == kind && f.nth == n) {
        w.faults.remove(pos);
        w.stats.faults_fired += 1;
        if w.in_collector_callback() || hook_flags().0 {
            w.stats.faults_in_collector += 1;
        }
        w.any_panic = true;
        w.panicked_this_call = true;
        if w.flags.fault_call == 0 {
            w.flags.fault_call = w.call;
        }
        w.note(|| format!("** injected panic in {:?} #{}", kind, n));
        return true;
    }
    false
}

pub struct Injected(pub Kind, pub u32);

fn throw(kind: Kind) -> ! {
    std::panic::resume_unwind(Box::new(Injected(kind, 0)))
}

/// Work bound per API call (C06: termination as a safety bound).
fn budget_check(w: &mut World) {
    w.callbacks_in_call += 1;
    let limit = 10_000 + 200 * (w.objs.len() as u64);
    if w.callbacks_in_call > limit && !w.budget_exceeded {
        w.budget_exceeded = true;
        let d = format!("{} callbacks in one API call (limit {})", w.callbacks_in_call, limit);
        w.violation(&["C06"], "bounded-work", "bounded-work/exceeded".into(), d, false);
    }
}

unsafe impl Trace for Node {
    fn trace(&self, ctx: &mut Context<'_>) {
        let tracing = state::is_tracing().unwrap_or(false);
        let flags = hook_flags();
        let go = try_w(|w| {
            match canary_of(self) {
                Canary::Live => {}
                c => {
                    let sig = format!("trace-on-dead-value/{:?}", c);
                    w.hard(&["C01", "C03"], "trace-on-dead-value", sig, format!("Trace::trace called on a value with canary {:?}", c));
                }
            }
            if self.epoch != w.epoch {
                return false;
            }
            let oid = self.id;
            w.ev += 1;
            w.stats.trace_events += 1;
            w.trace_in_call = true;
            w.last_trace_ev = Some(w.ev);
            budget_check(w);
            w.note(|| format!("trace obj{}", oid));
            if w.objs[oid as usize].first_trace_call == 0 {
                w.objs[oid as usize].first_trace_call = w.call;
            }
            if w.any_panic && w.flags.fault_call != 0 && w.call > w.flags.fault_call && w.objs[oid as usize].first_trace_call <= w.flags.fault_call {
                w.flags.c07 = true;
            }
            if !tracing {
                let sig = format!("is-tracing-false-in-trace/{}/flags={}{}{}", w.stack_sig(), flags.0 as u8, flags.1 as u8, flags.2 as u8);
                w.violation(&["C12"], "is-tracing-in-trace", sig, format!("is_tracing() == false inside Trace::trace of obj{}", oid), false);
            }
            if w.objs[oid as usize].dropped {
                let sig = "trace-after-drop".to_string();
                w.violation(&["C01", "C03"], "trace-after-drop", sig, format!("Trace::trace on dropped obj{}", oid), false);
            }
            w.frames.push(Frame { kind: Fk::Trace, oid, collecting: true, in_batch: false, manual: false });
            true
        });
        if go != Some(true) {
            return;
        }
        let _fg = FrameGuard;
        if w(|w| fault_due(w, Kind::Trace)) {
            throw(Kind::Trace);
        }
        self.traced[0].trace(ctx);
        self.traced[1].trace(ctx);
        self.traced[2].trace(ctx);
        if w(|w| fault_due(w, Kind::TraceEnd)) {
            throw(Kind::TraceEnd);
        }
    }
}

impl Finalize for Node {
    fn finalize(&self) {
        let tracing = state::is_tracing().unwrap_or(false);
        let flags = hook_flags();
        let go = try_w(|w| {
            match canary_of(self) {
                Canary::Live => {}
                c => {
                    let sig = format!("finalize-on-dead-value/{:?}", c);
                    w.hard(&["C05", "C01"], "finalize-on-dead-value", sig, format!("Finalize::finalize called on a value with canary {:?}", c));
                }
            }
            if self.epoch != w.epoch {
                return false;
            }
            let oid = self.id;
            w.ev += 1;
            w.stats.fin_events += 1;
            w.fin_seen_in_call += 1;
            budget_check(w);
            w.note(|| format!("finalize obj{} (collecting={})", oid, flags.0));
            if flags.0 {
                w.flags.fin_in_collector_call += 1;
                if w.flags.fin_in_collector_call >= 2 {
                    w.flags.c05 = true;
                }
            } else if w.objs[oid as usize].lost_ptr {
                w.flags.c05_rc_hist = true;
            }
            if !w.finalization {
                w.violation(&["C05"], "finalize-without-feature", "finalize-without-feature".into(), format!("finalize called on obj{} with the finalization feature disabled", oid), false);
            }
            if tracing {
                let sig = format!("is-tracing-true-in-finalize/{}", w.stack_sig());
                w.violation(&["C12"], "is-tracing-in-finalize", sig, format!("is_tracing() == true inside finalize of obj{}", oid), false);
            }
            // C05: only on garbage
            let cutoff = w.last_trace_ev;
            let reach = w.reach(cutoff);
            if reach.contains(&oid) && !w.objs[oid as usize].tainted {
                let sig = format!("finalize-on-reachable/{}", if flags.0 { "collector" } else { "rc" });
                let d = format!("finalize called on program-reachable {}", w.describe(oid));
                w.violation(&["C05"], "finalize-on-reachable", sig, d, false);
            }
            {
                let o = &mut w.objs[oid as usize];
                o.fin_count += 1;
                o.model_finalized = true;
                let (fc, fa, bif, dr) = (o.fin_count, o.fin_allowed, o.born_in_finalizer, o.dropped);
                if fc > fa {
                    // C06: "a resurrected object that later becomes unreachable again is reclaimed without
                    // a second finalization"
                    let res = w.objs[oid as usize].resurrected;
                    let props: &[&str] = if res { &["C05", "C06"] } else { &["C05"] };
                    w.violation(props, "finalize-twice", "finalize-twice".into(), format!("obj{} finalized {} times (allowed {})", oid, fc, fa), false);
                }
                if bif {
                    w.violation(&["C05"], "finalize-born-in-finalizer", "finalize-born-in-finalizer".into(), format!("obj{} was created inside a finalizer but was finalized", oid), false);
                }
                if dr {
                    w.violation(&["C05", "C03"], "finalize-after-drop", "finalize-after-drop".into(), format!("obj{} finalized after its Drop ran", oid), false);
                }
            }
            // C05: everything reachable from it is still undropped (shadow) ...
            let sub = w.reach_from(oid);
            for y in sub {
                if w.objs[y as usize].dropped {
                    let sig = format!("finalizer-sees-dropped/{}", if flags.0 { "collector" } else { "rc" });
                    w.violation(&["C05"], "finalizer-sees-dropped", sig, format!("finalizer of obj{} can reach dropped obj{}", oid, y), false);
                }
            }
            w.frames.push(Frame { kind: Fk::Finalize, oid, collecting: flags.0, in_batch: false, manual: false });
            true
        });
        if go != Some(true) {
            return;
        }
        let _fg = FrameGuard;
        // ... and intact when read through the actual fields
        check_subgraph_intact(self, "C05");
        if w(|w| fault_due(w, Kind::Finalize)) {
            throw(Kind::Finalize);
        }
        let script = w(|w| {
            let s = w.objs[self.id as usize].spec.fin.clone();
            if !s.is_empty() {
                w.ptr_ops_in_callbacks = true;
            }
            s
        });
        for op in &script {
            if w(|w| w.budget_exceeded) {
                break;
            }
            crate::heap::run_fin_op(self, op);
        }
        // C11 model: a finalizer run by the last Cc::drop that resurrected its object makes
        // Cc::drop buffer the object instead of freeing it
        if !flags.0 {
            let id = self.id;
            if w(|w| w.shadow_strong_no_inflight(id) > 0) {
                buf_enter(id);
            }
        }
    }
}

/// Walks the actual fields from `node`, checking that every `Cc` found leads to a live box
/// with an intact value whose identity agrees with the shadow graph.
fn check_subgraph_intact(node: &Node, owner_prop: &'static str) {
    let mut seen: BTreeSet<Oid> = BTreeSet::new();
    let mut stack: Vec<*const Node> = vec![node as *const Node];
    seen.insert(node.id);
    while let Some(p) = stack.pop() {
        let n = unsafe { &*p };
        for s in 0..NSLOTS {
            let Ok(b) = n.slot(s).try_borrow() else { continue };
            if let Some(cc) = b.as_ref() {
                let expect = w(|w| w.objs[n.id as usize].slots[s].map(|e| e.to));
                let snap = verif::object_snapshot(cc);
                let live = alloc::block_at(snap.box_addr).map_or(false, |b| b.live);
                if !live {
                    w(|w| {
                        let sig = "neighbour-box-released".to_string();
                        w.hard(&[owner_prop, "C01"], "neighbour-box-released", sig, format!("slot {} of obj{} points to a released allocation", s, n.id));
                    });
                }
                let (flags, tracing) = (hook_flags(), state::is_tracing().unwrap_or(false));
                let _ = (flags, tracing);
                let child: &Node = unsafe { &*(payload_of(cc)) };
                let c = canary_of(child);
                if c != Canary::Live {
                    w(|w| {
                        let sig = format!("neighbour-dead/{:?}", c);
                        w.violation(&[owner_prop, "C01"], "neighbour-dead", sig, format!("slot {} of obj{} leads to a value with canary {:?}", s, n.id, c), false);
                    });
                    continue;
                }
                if Some(child.id) != expect {
                    w(|w| {
                        w.violation(&["C01"], "slot-identity", "slot-identity".into(), format!("slot {} of obj{} holds obj{}, shadow says {:?}", s, n.id, child.id, expect), false);
                    });
                }
                if seen.insert(child.id) {
                    stack.push(child as *const Node);
                }
            }
        }
    }
}

/// Address of the payload of a `Cc<Node>` without going through `Deref` (which panics in
/// debug builds during tracing and would hide the fact being checked).
#[inline]
pub fn payload_of(cc: &Cc<Node>) -> *const Node {
    // `Cc<T>` derefs to the payload; outside tracing phases Deref is a plain field access.
    let snap = verif::object_snapshot(cc);
    (snap.box_addr + payload_offset()) as *const Node
}

pub fn payload_offset() -> usize {
    // CcBox<T> is repr(C): next, prev, metadata (fat pointer), counter_marker (2 x u16), elem
    let header = 8 + 8 + 16 + 4;
    let a = std::mem::align_of::<Node>();
    (header + a - 1) / a * a
}

impl Drop for Node {
    fn drop(&mut self) {
        let tracing = state::is_tracing().unwrap_or(false);
        let flags = hook_flags();
        let addr = self as *const Node as usize;
        let mut saved: [Option<Option<Oid>>; 2] = [None; 2];
        let mut glue: Vec<Oid> = Vec::new();
        let go = try_w(|w| {
            match canary_of(self) {
                Canary::Live => {}
                Canary::Dead => {
                    w.hard(&["C03"], "double-drop", "double-drop".into(), format!("Drop ran twice on the value at {:#x}", addr));
                }
                Canary::Poison => {
                    w.hard(&["C03", "C01"], "drop-after-free", "drop-after-free".into(), format!("Drop ran on released memory at {:#x}", addr));
                }
                Canary::Garbage(x) => {
                    w.hard(&["C14", "C03"], "drop-of-uninitialised", "drop-of-uninitialised".into(), format!("Drop ran on a never-constructed value at {:#x} (canary {:#x})", addr, x));
                }
            }
            self.canary.set(DEAD);
            if self.epoch != w.epoch {
                return false;
            }
            let oid = self.id;
            w.ev += 1;
            w.stats.drop_events += 1;
            w.drop_seen_in_call += 1;
            budget_check(w);
            let in_batch = {
                let o = &w.objs[oid as usize];
                if o.in_box && o.box_addr != 0 && alloc::block_at(o.box_addr).map_or(false, |b| b.live) {
                    let m = unsafe { verif::object_snapshot_at(o.box_addr) }.mark();
                    m >= 2
                } else {
                    false
                }
            };
            w.note(|| format!("drop obj{} (collecting={} in_batch={})", oid, flags.0, in_batch));
            if tracing {
                let sig = format!("is-tracing-true-in-drop/{}", w.stack_sig());
                w.violation(&["C12"], "is-tracing-in-drop", sig, format!("is_tracing() == true inside Drop of obj{}", oid), false);
            }
            // C01: never on a reachable object
            let reach = w.reach(None);
            let (o_in_box, o_tainted, o_res, o_uninit, o_never, o_mfin, o_bif, o_payload) = {
                let o = &w.objs[oid as usize];
                (o.in_box, o.tainted, o.resurrected, o.uninit, o.never_init, o.model_finalized, o.born_in_finalizer, o.payload)
            };
            if o_in_box && reach.contains(&oid) && !o_tainted {
                let sig = format!("drop-on-reachable/{}", if flags.0 { "collector" } else { "rc" });
                let d = format!("Drop ran on program-reachable {}", w.describe(oid));
                let mut props = vec!["C01"];
                if o_res {
                    props.push("C06");
                }
                if w.objs[oid as usize].upgraded_call == w.call && w.call != 0 {
                    // a callback of this very call was handed a Cc by Weak::upgrade although the
                    // destruction of the value was under way (or about to start in the same batch)
                    props.push("C08");
                }
                w.violation(&props, "drop-on-reachable", sig, d, false);
            }
            if o_uninit || o_never {
                w.violation(&["C14", "C03"], "drop-of-never-initialised", "drop-of-never-initialised".into(), format!("Drop ran for obj{} whose value was never written", oid), false);
            }
            // C05: finalized before dropped (when due)
            if w.finalization && o_in_box && !o_mfin && !o_bif && !o_tainted && !w.any_panic {
                let sig = format!("drop-without-finalize/{}", if flags.0 { "collector" } else { "rc" });
                w.violation(&["C05", "C04"], "drop-without-finalize", sig, format!("obj{} dropped without having been finalized", oid), false);
            }
            if o_in_box && o_payload != addr {
                w.hard(&["C14", "C03"], "drop-of-stale-copy", "drop-of-stale-copy".into(), format!("Drop ran on a value at {:#x} that is not where obj{} lives ({:#x})", addr, oid, o_payload));
            }
            // measured classes
            if in_batch {
                w.flags.collector_drops_in_call += 1;
                let succ: Vec<Oid> = w.objs[oid as usize].slots.iter().flatten().map(|e| e.to).collect();
                let on_cycle = succ.iter().any(|&y| w.reach_from(y).contains(&oid));
                if on_cycle {
                    w.stats.cycles_reclaimed += 1;
                    let o = &w.objs[oid as usize];
                    if (o.first_trace_call != 0 && o.first_trace_call < w.call) || o.unbuffer_ops > 0 {
                        w.flags.c02 = true;
                    }
                }
                let o = &w.objs[oid as usize];
                if o.actions.len() >= 2 && o.actions.iter().any(|&a| w.actions[a].manual) {
                    w.flags.c10 = true;
                }
            } else if o_in_box {
                w.flags.rc_drops_in_call += 1;
                let o = &w.objs[oid as usize];
                if o.lost_ptr || o.first_trace_call != 0 {
                    w.flags.rc_drop_hist_in_call = true;
                }
            }
            let call = w.call;
            let tg: Vec<Oid> = w.objs[oid as usize].slots.iter().flatten().map(|e| e.to).collect();
            buf_leave(oid);
            w.objs[oid as usize].slots = [None; NSLOTS];
            glue = tg.clone();
            w.glue_targets.extend(tg);
            let o = &mut w.objs[oid as usize];
            saved = o.wslots;
            o.dropped = true;
            o.drop_count += 1;
            o.drop_call = call;
            o.drop_in_collector = in_batch;
            o.slots = [None; NSLOTS];
            o.wslots = [None; 2];
            if in_batch {
                w.stats.collector_reclaimed += 1;
            } else if o.in_box {
                w.stats.rc_reclaimed += 1;
            }
            w.frames.push(Frame { kind: Fk::Drop, oid, collecting: flags.0, in_batch, manual: false });
            true
        });
        if go != Some(true) {
            return;
        }
        let _fg = FrameGuard;
        // destructor queries (the only API use in a payload destructor): upgrade own weaks
        #[cfg(feature = "weak-ptrs")]
        {
            let dq = w(|w| w.objs[self.id as usize].spec.dq);
            for i in 0..2 {
                if dq & (1 << i) != 0 {
                    let wk = self.weaks[i].borrow();
                    if let (Some(wk), Some(target)) = (wk.as_ref(), saved[i]) {
                        crate::heap::upgrade_in_callback(wk, target);
                    }
                }
            }
        }
        // C11 model: after this callback the drop glue releases the pointers this value owned;
        // a target that keeps other owners gets buffered
        w(|w| {
            for &y in &glue {
                let oy = &w.objs[y as usize];
                if !oy.dropped && oy.in_box && w.shadow_strong(y) > 0 {
                    buf_enter(y);
                    w.objs[y as usize].lost_ptr = true;
                }
            }
        });
        if w(|w| fault_due(w, Kind::Drop)) {
            throw(Kind::Drop);
        }
    }
}


// ------------------------------------------------------------------------------------------
// primitives: every pointer operation goes through these so that the shadow stays exact

pub struct InflightGuard(pub Oid, pub bool);
impl Drop for InflightGuard {
    fn drop(&mut self) {
        let oid = self.0;
        let completed = self.1;
        let _ = try_w(|w| {
            if !completed {
                // the drop of this Cc was unwound: the count of its target may stay too high
                w.objs[oid as usize].slack = true;
            }
            if let Some(n) = w.inflight.get_mut(&oid) {
                *n -= 1;
                if *n == 0 {
                    w.inflight.remove(&oid);
                }
            }
        });
    }
}

/// Drops a `Cc` whose container entry has already been removed from the shadow graph.
pub fn prim_drop(cc: Cc<Node>, oid: Oid) {
    w(|w| {
        *w.inflight.entry(oid).or_insert(0) += 1;
        // the in-flight pointer does not count for "still owned": has the object lost its
        // last pointer in this call?
        if w.shadow_strong_no_inflight(oid) == 0 {
            let call = w.call;
            w.objs[oid as usize].zeroed_call = call;
        }
        if w.shadow_strong_no_inflight(oid) > 0 {
            w.objs[oid as usize].lost_ptr = true;
        }
        w.objs[oid as usize].was_buffered_or_collected |= true;
        w.note(|| format!("drop Cc->obj{}", oid));
    });
    let mut g = InflightGuard(oid, false);
    {
        let _b = Bracket::open();
        drop(cc);
    }
    g.1 = true;
    // C11 model: a non-last drop buffers the object; the last one frees it (or, if a finalizer
    // resurrected it, buffers it)
    let stays = w(|w| {
        let o = &w.objs[oid as usize];
        !o.dropped && o.in_box && w.shadow_strong_no_inflight(oid) > 0
    });
    if stays {
        buf_enter(oid);
    } else {
        buf_leave(oid);
    }
}

pub fn new_obj(w: &mut World, spec: Spec) -> Oid {
    let oid = w.objs.len() as Oid;
    let born_in_finalizer = w.in_frame(Fk::Finalize);
    let call = w.call;
    w.objs.push(Obj {
        id: oid,
        spec,
        payload: 0,
        box_addr: 0,
        box_size: 0,
        box_align: 0,
        in_box: false,
        loose: true,
        uninit: false,
        never_init: false,
        moved_out: false,
        dropped: false,
        drop_count: 0,
        drop_call: 0,
        drop_in_collector: false,
        fin_count: 0,
        fin_allowed: 1,
        model_finalized: born_in_finalizer,
        born_in_finalizer,
        slots: [None; NSLOTS],
        wslots: [None; 2],
        tainted: false,
        born_call: call,
        resurrected: false,
        was_buffered_or_collected: false,
        zeroed_call: 0,
        side_rec: 0,
        map_box: 0,
        map_size: 0,
        actions: Vec::new(),
        cyclic: false,
        release_reported: false,
        rec_reported: false,
        res_used: false,
        lost_ptr: false,
        upgraded_call: 0,
        first_trace_call: 0,
        unbuffer_ops: 0,
        manual_cleans: 0,
        slack: false,
    });
    w.created_in_call += 1;
    oid
}

/// `Cc::new(Node)`. Returns `None` if the object budget of the case is exhausted.
pub fn prim_new(spec: Spec) -> Option<(Oid, Cc<Node>)> {
    let (oid, epoch) = {
        let r = w(|w| {
            if w.objs.len() >= 48 || w.budget_exceeded {
                return None;
            }
            let oid = new_obj(w, spec);
            w.note(|| format!("Cc::new obj{}", oid));
            Some((oid, w.epoch))
        });
        r?
    };
    let node = Node::new(oid, epoch);
    let exec0 = state::executions_count().unwrap_or(0);
    let cc = {
        let _b = Bracket::open();
        Cc::new(node)
    };
    let exec1 = state::executions_count().unwrap_or(0);
    let snap = verif::object_snapshot(&cc);
    let blk = alloc::block_at(snap.box_addr);
    w(|w| {
        if exec1 != exec0 {
            w.stats.auto_collections += 1;
        }
        let o = &mut w.objs[oid as usize];
        o.loose = false;
        o.in_box = true;
        o.box_addr = snap.box_addr;
        o.payload = snap.box_addr + payload_offset();
        if let Some(b) = blk {
            o.box_size = b.size;
            o.box_align = b.align;
            if !b.live {
                w.violation(&["C03"], "new-box-not-live", "new-box-not-live".into(), format!("box of freshly created obj{} is not a live allocation", oid), false);
            }
        } else if alloc::overflow_count() == 0 {
            w.violation(&["C03"], "new-box-unknown", "new-box-unknown".into(), format!("box of freshly created obj{} was not allocated through the global allocator", oid), false);
        }
    });
    Some((oid, cc))
}

pub fn prim_collect() {
    let (nested, plain) = w(|w| {
        let nested = w.in_collector_callback();
        let plain = !nested && !w.frames.is_empty();
        if nested {
            w.stats.nested_requests += 1;
        }
        w.collect_depth += 1;
        w.note(|| format!("collect_cycles() nested={} plain_ctx={}", nested, plain));
        (nested, plain)
    });
    struct G;
    impl Drop for G {
        fn drop(&mut self) {
            let _ = try_w(|w| w.collect_depth -= 1);
        }
    }
    let _g = G;
    let exec0 = state::executions_count().unwrap_or(0);
    let ev0 = w(|w| w.ev);
    // C11: a collection that was started is counted, also when a callback unwinds it
    struct Unwound(usize, u64, bool);
    impl Drop for Unwound {
        fn drop(&mut self) {
            if std::thread::panicking() && !self.2 {
                let exec1 = state::executions_count().unwrap_or(0);
                let _ = try_w(|w| {
                    if w.ev > self.1 && exec1 == self.0 && w.collect_depth == 1 {
                        w.violation(&["C11"], "executions-count-step", "executions-count-missed/unwound".into(), format!("collect_cycles() ran {} callbacks and was unwound by a panic, executions_count still {}", w.ev - self.1, exec1), false);
                    }
                });
            }
        }
    }
    let _unwound = Unwound(exec0, ev0, nested);
    {
        struct C;
        impl Drop for C {
            fn drop(&mut self) {
                IN_COLLECT.fetch_sub(1, Ordering::SeqCst);
            }
        }
        let n = IN_COLLECT.fetch_add(1, Ordering::SeqCst) + 1;
        MAX_IN_COLLECT.fetch_max(n, Ordering::SeqCst);
        let _c = C;
        let _b = Bracket::open();
        collect_cycles();
    }
    let exec1 = state::executions_count().unwrap_or(0);
    w(|w| {
        let events = w.ev - ev0;
        if nested {
            // C12: a request from a callback of a running collection is a no-op
            if exec1 != exec0 {
                let sig = format!("nested-collection-started/{}", w.stack_sig());
                w.violation(&["C12"], "nested-collection", sig, format!("collect_cycles() from a collector callback raised executions_count by {}", exec1 - exec0), false);
            }
            if events != 0 {
                let sig = format!("nested-collection-callbacks/{}", w.stack_sig());
                w.violation(&["C12"], "nested-collection", sig, format!("collect_cycles() from a collector callback ran {} callbacks", events), false);
            }
        } else {
            if exec1 < exec0 || exec1 > exec0 + 1 {
                w.violation(&["C11"], "executions-count-step", "executions-count-step/collect".into(), format!("executions_count went {} -> {} across one collect_cycles()", exec0, exec1), false);
            }
            if exec1 == exec0 + 1 {
                w.stats.collections += 1;
                if plain {
                    w.stats.plain_drop_collections += 1;
                }
            }
            if exec1 == exec0 && events != 0 && w.collect_depth == 1 {
                w.violation(&["C11"], "executions-count-step", "executions-count-missed".into(), format!("collect_cycles() ran {} callbacks but executions_count did not change", events), false);
            }
        }
    });
}
