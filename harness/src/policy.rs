//! C15: automatic collection policy. Generated allocation/release workloads; around every
//! top-level `Cc::new` the trigger decision is compared with the documented condition, and
//! after every collection the byte threshold is checked against the validity predicate.

use std::cell::RefCell;
use std::num::NonZeroUsize;

use proptest::prelude::*;
use serde::{Deserialize, Serialize};

use rust_cc::{collect_cycles, state, Cc, Context, Finalize, Trace};

use crate::world::Violation;

pub struct Leaf<const N: usize> {
    _bytes: [u8; N],
}
unsafe impl<const N: usize> Trace for Leaf<N> {
    fn trace(&self, _: &mut Context<'_>) {}
}
impl<const N: usize> Finalize for Leaf<N> {}

pub struct Ring {
    next: RefCell<Option<Cc<Ring>>>,
    _pad: [u8; 24],
}
unsafe impl Trace for Ring {
    fn trace(&self, ctx: &mut Context<'_>) {
        self.next.trace(ctx);
    }
}
impl Finalize for Ring {}

pub const SIZES: [usize; 9] = [0, 8, 40, 100, 300, 1000, 4000, 16000, 65536];

/// An object with a `Cleaner` whose action creates (and releases) an object: creations made
/// while a plain reference-count drop runs the action are subject to the trigger rule like any
/// other (no collection is running), creations made while the collector destroys the owner are not.
#[cfg(feature = "cleaners")]
pub struct Maker {
    next: RefCell<Option<Cc<Maker>>>,
    cleaner: rust_cc::cleaners::Cleaner,
}
#[cfg(feature = "cleaners")]
unsafe impl Trace for Maker {
    fn trace(&self, ctx: &mut Context<'_>) {
        self.next.trace(ctx);
    }
}
#[cfg(feature = "cleaners")]
impl Finalize for Maker {}

/// One creation observed inside a callback (judged by the main loop, which knows the configuration).
#[derive(Clone, Copy, Debug)]
struct Obs {
    a: usize,
    b: usize,
    t: usize,
    delta: usize,
    a_after: usize,
    t_after: usize,
    new_size: usize,
    collecting: bool,
}

thread_local! {
    static OBS: RefCell<Vec<Obs>> = const { RefCell::new(Vec::new()) };
}

#[cfg(feature = "cleaners")]
fn observed_creation(big: bool) {
    let flags = rust_cc::verif::state_flags().unwrap_or((false, false, false));
    let a = state::allocated_bytes().unwrap_or(0);
    let b = state::buffered_objects_count().unwrap_or(0);
    #[cfg(feature = "auto-collect")]
    let t = rust_cc::verif::bytes_threshold().unwrap_or(0);
    #[cfg(not(feature = "auto-collect"))]
    let t = 0;
    let e0 = state::executions_count().unwrap_or(0);
    let (new_size, a_after) = if big {
        let c = {
            let _b = crate::alloc::Bracket::open();
            Cc::new(Leaf { _bytes: [0u8; 1000] })
        };
        let sz = crate::alloc::block_at(rust_cc::verif::object_snapshot(&c).box_addr).map_or(0, |b| b.size);
        let aa = state::allocated_bytes().unwrap_or(0);
        drop(c);
        (sz, aa)
    } else {
        let c = {
            let _b = crate::alloc::Bracket::open();
            Cc::new(Leaf { _bytes: [0u8; 40] })
        };
        let sz = crate::alloc::block_at(rust_cc::verif::object_snapshot(&c).box_addr).map_or(0, |b| b.size);
        let aa = state::allocated_bytes().unwrap_or(0);
        drop(c);
        (sz, aa)
    };
    let e1 = state::executions_count().unwrap_or(0);
    #[cfg(feature = "auto-collect")]
    let t_after = rust_cc::verif::bytes_threshold().unwrap_or(0);
    #[cfg(not(feature = "auto-collect"))]
    let t_after = 0;
    OBS.with(|o| o.borrow_mut().push(Obs { a, b, t, delta: e1.wrapping_sub(e0), a_after, t_after, new_size, collecting: flags.0 }));
}

enum Held {
    L0(Cc<Leaf<0>>),
    L1(Cc<Leaf<8>>),
    L2(Cc<Leaf<40>>),
    L3(Cc<Leaf<100>>),
    L4(Cc<Leaf<300>>),
    L5(Cc<Leaf<1000>>),
    L6(Cc<Leaf<4000>>),
    L7(Cc<Leaf<16000>>),
    L8(Cc<Leaf<65536>>),
    R(Cc<Ring>),
    #[cfg(feature = "cleaners")]
    M(Cc<Maker>),
}

impl Held {
    fn clone_drop(&self) {
        // clone + drop of the clone: buffers the object without changing anything else
        match self {
            Held::L0(c) => drop(c.clone()),
            Held::L1(c) => drop(c.clone()),
            Held::L2(c) => drop(c.clone()),
            Held::L3(c) => drop(c.clone()),
            Held::L4(c) => drop(c.clone()),
            Held::L5(c) => drop(c.clone()),
            Held::L6(c) => drop(c.clone()),
            Held::L7(c) => drop(c.clone()),
            Held::L8(c) => drop(c.clone()),
            Held::R(c) => drop(c.clone()),
            #[cfg(feature = "cleaners")]
            Held::M(c) => drop(c.clone()),
        }
    }
}

#[derive(Clone, Debug, PartialEq, Serialize, Deserialize, Hash, Eq)]
pub enum POp {
    /// allocate a leaf of size class `0..9` and keep it
    Leaf(u8),
    /// allocate a ring of `n` nodes and release every handle (garbage, buffered)
    GarbageRing(u8),
    /// allocate a ring of `n` nodes and keep one handle
    LiveRing(u8),
    /// release a held object (selector)
    Release(u8),
    /// buffer a held object (clone + drop)
    Buffer(u8),
    Collect,
    SetAuto(bool),
    /// adjustment percent index
    SetPercent(u8),
    /// buffered threshold: 0 = None, else 1..=8
    SetBuffered(u8),
    /// an object whose cleaning action creates an object when its owner is destroyed (bit 0: big
    /// allocation; bits 1..: 0 = kept, 1 = released at once (plain drop), 2..=3 = ring of that many
    /// makers released (collector path))
    Maker(u8),
}

pub const PERCENTS: [f64; 8] = [0.0, 1e-9, 0.05, 0.1, 0.5, 0.9, 0.99, 1.0];

#[derive(Clone, Debug, PartialEq, Serialize, Deserialize, Hash, Eq, Default)]
pub struct PCase {
    pub ops: Vec<POp>,
}

impl PCase {
    pub fn hash64(&self) -> u64 {
        use std::hash::{Hash, Hasher};
        let mut h = crate::case::Fnv(0xcbf29ce484222325);
        self.hash(&mut h);
        h.finish()
    }
}

pub fn strategy(max_ops: usize) -> BoxedStrategy<PCase> {
    let op = prop_oneof![
        10 => (0u8..9).prop_map(POp::Leaf),
        3 => (1u8..6).prop_map(POp::GarbageRing),
        2 => (1u8..5).prop_map(POp::LiveRing),
        6 => any::<u8>().prop_map(POp::Release),
        3 => any::<u8>().prop_map(POp::Buffer),
        3 => Just(POp::Collect),
        1 => any::<bool>().prop_map(POp::SetAuto),
        2 => (0u8..8).prop_map(POp::SetPercent),
        2 => (0u8..9).prop_map(POp::SetBuffered),
        4 => (0u8..8).prop_map(POp::Maker),
    ];
    prop::collection::vec(op, 1..=max_ops).prop_map(|ops| PCase { ops }).boxed()
}

#[derive(Default, Clone, Debug, Serialize, Deserialize)]
pub struct PResult {
    pub violations: Vec<Violation>,
    pub creations: u32,
    pub triggered: u32,
    pub grew: bool,
    pub shrank: bool,
    pub near_boundary: u32,
    pub buffered_trigger: u32,
    pub nontrivial: bool,
    pub log: Vec<String>,
}

struct Ctx {
    res: PResult,
    logging: bool,
    auto: bool,
    pct: f64,
    thr: Option<usize>,
    last_t: usize,
}

impl Ctx {
    fn vio(&mut self, rule: &str, sig: String, detail: String) {
        if self.logging {
            self.res.log.push(format!("!! {} :: {}", sig, detail));
        }
        if self.res.violations.len() < 16 {
            self.res.violations.push(Violation { props: vec!["C15".into()], rule: rule.into(), sig, detail, op: -1, hard: false });
        }
    }

    #[cfg(feature = "auto-collect")]
    fn threshold(&self) -> usize {
        rust_cc::verif::bytes_threshold().unwrap_or(0)
    }
    #[cfg(not(feature = "auto-collect"))]
    fn threshold(&self) -> usize {
        0
    }

    /// Checks the validity predicate of the threshold right after a collection.
    fn after_collection(&mut self, what: &str) {
        let a = state::allocated_bytes().unwrap_or(0);
        self.after_collection_with(what, a);
    }

    fn after_collection_with(&mut self, what: &str, a: usize) {
        let t = self.threshold();
        self.judge_threshold(what, a, t);
    }

    fn judge_threshold(&mut self, what: &str, a: usize, t: usize) {
        if !cfg!(feature = "auto-collect") {
            return;
        }
        if t > self.last_t {
            self.res.grew = true;
        }
        if t < self.last_t {
            self.res.shrank = true;
        }
        self.last_t = t;
        // power-of-two multiple of the initial value
        let mut k = t;
        let mut pow2 = t >= 100 && t % 100 == 0;
        if pow2 {
            k = t / 100;
            pow2 = k.is_power_of_two();
        }
        let _ = k;
        if !pow2 {
            self.vio("threshold-shape", format!("threshold-shape/{}", what), format!("threshold {} is not 100 * 2^k after a collection", t));
        }
        if t <= a {
            self.vio("threshold-not-above-bytes", format!("threshold-not-above-bytes/{}", what), format!("threshold {} <= allocated bytes {} after a collection", t, a));
        }
        if self.pct != 0.0 {
            let ok = (a as f64) > (t as f64) * self.pct || t / 2 <= a || t == 100;
            if !ok {
                self.vio("threshold-too-high", format!("threshold-too-high/{}", what), format!("threshold {} needlessly high: allocated {}, percent {}", t, a, self.pct));
            }
        }
    }

    /// Judges the creations observed inside cleaning actions since the last call.
    fn drain_observations(&mut self) {
        let obs: Vec<Obs> = OBS.with(|o| std::mem::take(&mut *o.borrow_mut()));
        for o in obs {
            self.res.creations += 1;
            let by_bytes = o.a > o.t;
            let by_buf = self.thr.map_or(false, |x| o.b > x);
            // a creation from a callback of a running collection never starts another one (C12);
            // one made while a plain reference-count drop runs a cleaning action is like any other
            let expected = cfg!(feature = "auto-collect") && self.auto && !o.collecting && (by_bytes || by_buf);
            if self.logging {
                self.res.log.push(format!("create in action: {:?} -> expected {}", o, expected));
            }
            if expected && o.delta != 1 {
                let sig = format!("trigger-missed/{}/in-action-of-plain-drop", if by_bytes { "bytes" } else { "buffered" });
                self.vio("trigger-missed", sig, format!("creation inside a cleaning action (no collection running) with bytes {} > threshold {} or buffered {} > {:?} started {} collections", o.a, o.t, o.b, self.thr, o.delta));
            }
            if !expected && o.delta != 0 {
                let sig = format!("trigger-spurious/{}/in-action", if !self.auto { "auto-off" } else if o.collecting { "collector-running" } else { "below-threshold" });
                self.vio("trigger-spurious", sig, format!("creation inside a cleaning action with bytes {} threshold {} buffered {} thr {:?} auto {} collecting {} started {} collections", o.a, o.t, o.b, self.thr, self.auto, o.collecting, o.delta));
            }
            if o.delta == 1 {
                self.res.triggered += 1;
                self.judge_threshold("auto-in-action", o.a_after.saturating_sub(o.new_size), o.t_after);
                self.last_t = o.t_after;
            }
        }
    }

    /// A top-level creation with the trigger decision checked.
    fn create<T: Trace + 'static>(&mut self, v: T) -> Cc<T> {
        let a = state::allocated_bytes().unwrap_or(0);
        let b = state::buffered_objects_count().unwrap_or(0);
        let t = self.threshold();
        let e0 = state::executions_count().unwrap_or(0);
        let cc = {
            let _b = crate::alloc::Bracket::open();
            Cc::new(v)
        };
        let e1 = state::executions_count().unwrap_or(0);
        let new_size = crate::alloc::block_at(rust_cc::verif::object_snapshot(&cc).box_addr).map_or(0, |b| b.size);
        self.res.creations += 1;
        let by_bytes = a > t;
        let by_buf = self.thr.map_or(false, |x| b > x);
        let expected = cfg!(feature = "auto-collect") && self.auto && (by_bytes || by_buf);
        if cfg!(feature = "auto-collect") && (a as i64 - t as i64).abs() <= 4200 {
            self.res.near_boundary += 1;
        }
        let delta = e1.wrapping_sub(e0);
        if self.logging {
            self.res.log.push(format!("create: bytes {} buffered {} threshold {} auto {} thr {:?} -> delta {}", a, b, t, self.auto, self.thr, delta));
        }
        if expected && delta != 1 {
            let sig = format!("trigger-missed/{}", if by_bytes { "bytes" } else { "buffered" });
            self.vio("trigger-missed", sig, format!("creation with bytes {} > threshold {} or buffered {} > {:?} started {} collections", a, t, b, self.thr, delta));
        }
        if !expected && delta != 0 {
            let sig = format!("trigger-spurious/{}", if !self.auto { "auto-off" } else { "below-threshold" });
            self.vio("trigger-spurious", sig, format!("creation with bytes {} threshold {} buffered {} thr {:?} auto {} started {} collections", a, t, b, self.thr, self.auto, delta));
        }
        if delta == 1 {
            self.res.triggered += 1;
            if !by_bytes && by_buf {
                self.res.buffered_trigger += 1;
            }
            // the policy adjusted the threshold before the new object was allocated
            self.after_collection_with("auto", state::allocated_bytes().unwrap_or(0).saturating_sub(new_size));
        }
        cc
    }
}

fn ring(ctx: &mut Ctx, n: usize) -> Vec<Cc<Ring>> {
    let mut v: Vec<Cc<Ring>> = Vec::new();
    for _ in 0..n {
        let c = ctx.create(Ring { next: RefCell::new(None), _pad: [0; 24] });
        v.push(c);
    }
    for i in 0..n {
        let nx = v[(i + 1) % n].clone();
        *v[i].next.borrow_mut() = Some(nx);
    }
    v
}

/// Runs one workload on the current (fresh) thread.
pub fn run(case: &PCase, logging: bool) -> PResult {
    let mut ctx = Ctx { res: PResult::default(), logging, auto: true, pct: 0.1, thr: None, last_t: 100 };
    ctx.last_t = if cfg!(feature = "auto-collect") { ctx.threshold() } else { 0 };
    let mut held: Vec<Held> = Vec::new();
    for op in &case.ops {
        if logging {
            ctx.res.log.push(format!("== {:?}", op));
        }
        match op {
            POp::Leaf(k) => {
                let h = match k % 9 {
                    0 => Held::L0(ctx.create(Leaf { _bytes: [0; 0] })),
                    1 => Held::L1(ctx.create(Leaf { _bytes: [0; 8] })),
                    2 => Held::L2(ctx.create(Leaf { _bytes: [0; 40] })),
                    3 => Held::L3(ctx.create(Leaf { _bytes: [0; 100] })),
                    4 => Held::L4(ctx.create(Leaf { _bytes: [0; 300] })),
                    5 => Held::L5(ctx.create(Leaf { _bytes: [0; 1000] })),
                    6 => Held::L6(ctx.create(Leaf { _bytes: [0; 4000] })),
                    7 => Held::L7(ctx.create(Leaf { _bytes: [0; 16000] })),
                    _ => Held::L8(ctx.create(Leaf { _bytes: [0; 65536] })),
                };
                held.push(h);
            }
            POp::GarbageRing(n) => {
                let v = ring(&mut ctx, *n as usize);
                drop(v);
            }
            POp::LiveRing(n) => {
                let mut v = ring(&mut ctx, *n as usize);
                if let Some(first) = v.pop() {
                    drop(v);
                    held.push(Held::R(first));
                }
            }
            POp::Release(sel) => {
                if !held.is_empty() {
                    let i = (*sel as usize * held.len()) >> 8;
                    drop(held.remove(i));
                }
            }
            POp::Buffer(sel) => {
                if !held.is_empty() {
                    let i = (*sel as usize * held.len()) >> 8;
                    held[i].clone_drop();
                }
            }
            POp::Collect => {
                let e0 = state::executions_count().unwrap_or(0);
                collect_cycles();
                let e1 = state::executions_count().unwrap_or(0);
                if e1 != e0 + 1 {
                    ctx.vio("explicit-collect-count", "explicit-collect-count".into(), format!("executions_count {} -> {} across collect_cycles()", e0, e1));
                }
                ctx.after_collection("explicit");
            }
            POp::SetAuto(b) => {
                #[cfg(feature = "auto-collect")]
                {
                    let _ = rust_cc::config::config(|c| c.set_auto_collect(*b));
                    ctx.auto = *b;
                }
                let _ = b;
            }
            POp::SetPercent(k) => {
                #[cfg(feature = "auto-collect")]
                {
                    let p = PERCENTS[(*k as usize) % PERCENTS.len()];
                    let _ = rust_cc::config::config(|c| c.set_adjustment_percent(p));
                    ctx.pct = p;
                }
                let _ = k;
            }
            POp::SetBuffered(k) => {
                #[cfg(feature = "auto-collect")]
                {
                    let t = NonZeroUsize::new(*k as usize);
                    let _ = rust_cc::config::config(|c| c.set_buffered_objects_threshold(t));
                    ctx.thr = t.map(|x| x.get());
                }
                let _ = k;
            }
            POp::Maker(k) => {
                #[cfg(feature = "cleaners")]
                {
                    let big = k & 1 == 1;
                    let mode = (k >> 1) & 3;
                    let n = if mode >= 2 { mode as usize } else { 1 };
                    let mut v: Vec<Cc<Maker>> = Vec::new();
                    for _ in 0..n {
                        let m = ctx.create(Maker { next: RefCell::new(None), cleaner: rust_cc::cleaners::Cleaner::new() });
                        // registering allocates the cleaner's map object through Cc::new as well: not a
                        // creation the workload issues, observed only through the byte count
                        let cl = m.cleaner.register(move || observed_creation(big));
                        drop(cl);
                        v.push(m);
                    }
                    match mode {
                        0 => held.push(Held::M(v.pop().unwrap())),
                        1 => drop(v),
                        _ => {
                            for i in 0..n {
                                let nx = v[(i + 1) % n].clone();
                                *v[i].next.borrow_mut() = Some(nx);
                            }
                            drop(v);
                        }
                    }
                }
                let _ = k;
            }
        }
        ctx.drain_observations();
        // configuration read back
        #[cfg(feature = "auto-collect")]
        {
            let rb = rust_cc::config::config(|c| (c.auto_collect(), c.adjustment_percent(), c.buffered_objects_threshold().map(|x| x.get())));
            if let Ok((a, p, t)) = rb {
                if a != ctx.auto || p != ctx.pct || t != ctx.thr {
                    ctx.vio("config-readback", "config-readback".into(), format!("configuration reads back ({}, {}, {:?}), set ({}, {}, {:?})", a, p, t, ctx.auto, ctx.pct, ctx.thr));
                }
            }
        }
    }
    drop(held);
    ctx.drain_observations();
    collect_cycles();
    ctx.drain_observations();
    ctx.after_collection("final");
    let bytes = state::allocated_bytes().unwrap_or(1);
    if bytes != 0 {
        ctx.vio("bytes-after-release", "bytes-after-release".into(), format!("allocated_bytes() = {} after everything was released and collected", bytes));
    }
    if cfg!(feature = "auto-collect") {
        ctx.res.nontrivial = ctx.res.grew && ctx.res.shrank && ctx.res.near_boundary > 0;
    } else {
        ctx.res.nontrivial = ctx.res.creations >= 5;
    }
    ctx.res
}

/// Fresh thread per workload (the policy state is thread-local).
pub fn run_on_thread(case: &PCase, logging: bool) -> PResult {
    let c = case.clone();
    let r = std::thread::Builder::new()
        .stack_size(1 << 20)
        .spawn(move || run(&c, logging))
        .expect("spawn")
        .join();
    crate::alloc::end_case();
    r.unwrap_or_else(|_| {
            let mut r = PResult::default();
            r.violations.push(Violation {
                props: vec!["C15".into()],
                rule: "panic".into(),
                sig: format!("workload-panicked/{}", crate::engine::last_panic_loc()),
                detail: "the policy workload panicked".into(),
                op: -1,
                hard: true,
            });
            r
        })
}
