//! Byte-level decoder for the coverage-guided fuzz target: fixed-width records so that byte
//! mutations map to operation mutations. Layout: [config] [fault kind, fault nth] x2, then
//! 6-byte operation records [opcode, a, b, c, d, e].

use crate::case::*;

fn fin_op(x: u8, a: u8, b: u8) -> FinOp {
    match x % 15 {
        0 => FinOp::UpgradeOwnWeak(a % 2),
        1 => FinOp::StashSlot(a % 4),
        2 => FinOp::StashNeighbourSlot(a % 4, b % 4),
        3 => FinOp::StoreSlotInto(a % 4, b, a / 4 % 4),
        4 => FinOp::DropSlot(a % 4),
        5 => FinOp::AllocDrop,
        6 => FinOp::AllocStash,
        7 => FinOp::AllocCycleDrop,
        8 => FinOp::UpgradeHandle(a),
        9 => FinOp::DropHandle(a),
        10 => FinOp::Collect,
        11 => FinOp::TryUnwrap(a),
        12 => FinOp::FinalizeAgain(a),
        13 => FinOp::UpgradeOwnWeakInto(a % 2, b % 4),
        _ => FinOp::NewCyclic,
    }
}

fn act_op(x: u8, a: u8) -> ActOp {
    match x % 8 {
        0 => ActOp::DropCaptured,
        1 => ActOp::AllocStash,
        2 => ActOp::AllocDrop,
        3 => ActOp::UpgradeOwner,
        4 => ActOp::UpgradeHandle(a),
        5 => ActOp::CleanOther(a),
        6 => ActOp::Collect,
        _ => ActOp::TryUnwrapCaptured,
    }
}

fn clo_op(x: u8, a: u8) -> CloOp {
    match x % 5 {
        0 => CloOp::StoreWeakSelf(a % 2),
        1 => CloOp::StashWeak,
        2 => CloOp::AllocStash,
        3 => CloOp::Collect,
        _ => CloOp::LinkTo(a % 4, a),
    }
}

fn spec(b: u8, c: u8, d: u8, e: u8) -> Spec {
    let mut fin = Vec::new();
    if b & 1 == 1 {
        fin.push(fin_op(c, d, e));
        if b & 2 == 2 {
            fin.push(fin_op(d, e, c));
        }
    }
    Spec { fin, dq: (b >> 2) & 3 }
}

fn kind(x: u8) -> Kind {
    KINDS[(x as usize) % NKINDS]
}

pub fn decode(bytes: &[u8]) -> Case {
    let mut case = Case::default();
    if bytes.is_empty() {
        return case;
    }
    case.auto = bytes[0] & 1 == 1;
    let mut pos = 1;
    for _ in 0..2 {
        if pos + 2 <= bytes.len() {
            let (k, n) = (bytes[pos], bytes[pos + 1]);
            pos += 2;
            // high bit clear = no fault (most inputs run fault-free or with one fault)
            if k & 0x80 != 0 {
                let f = Fault { kind: kind(k), nth: (n % 48) as u32 };
                if !case.faults.contains(&f) {
                    case.faults.push(f);
                }
            }
        }
    }
    while pos + 6 <= bytes.len() && case.ops.len() < 64 {
        let r = &bytes[pos..pos + 6];
        pos += 6;
        let (mut a, b, mut c, mut d, e) = (r[1], r[2], r[3], r[4], r[5]);
        // the top tag values encode the same operation with relative selectors (k-th most recent entry)
        let rel = r[0] >= 208 && !matches!(r[0] % 26, 0 | 1 | 2 | 12 | 13 | 25);
        if rel {
            a %= 8;
            c %= 8;
            d %= 8;
        }
        let op = match r[0] % 26 {
            0 | 1 => Op::New(spec(b, c, d, e)),
            2 => Op::NewCyclic(spec(b, c, d, e), vec![clo_op(a, d), clo_op(e, c)][..(a as usize % 3).min(2)].to_vec()),
            3 => Op::Clone(a),
            4 | 5 => Op::Drop(a),
            6 | 7 => Op::SetSlot { h: a, s: b % 4, t: c },
            8 => Op::MoveSlot { h: a, s: b % 4, t: c },
            9 => Op::ClearSlot { h: a, s: b % 4 },
            10 => Op::TakeSlot { h: a, s: b % 4 },
            11 => Op::MarkAlive(a),
            12 | 13 => Op::Collect,
            14 => Op::Downgrade(a),
            15 => Op::WeakClone(a),
            16 => Op::WeakDrop(a),
            17 => Op::Upgrade(a),
            18 => Op::StoreWeak { h: a, ws: b % 2, w: c },
            19 => Op::TryUnwrap(a),
            20 => Op::DropLoose(a),
            21 => Op::FinalizeAgain(a),
            22 => Op::Register { h: a, act: vec![act_op(b, c), act_op(d, e)][..(b as usize % 3).min(2)].to_vec(), cap: if c & 1 == 1 { Some(d) } else { None }, weak_owner: e & 1 == 1 },
            23 => Op::Clean(a),
            24 => Op::DropCleanable(a),
            _ => Op::SetConfig { auto: a & 1 == 1, thr: b % 9, pct: c % 4 },
        };
        case.ops.push(if rel { Op::Rel(Box::new(op)) } else { op });
    }
    case
}
