//! C17: the built-in `Trace`/`Finalize` impls visit each owned `Cc` exactly once.
//!
//! Container shapes are instantiated by macro; leaves are `Probe`s that count their `trace`
//! and `finalize` calls and may own a `Cc<Target>`. One chosen position carries a cycle back
//! to the owner (through a `Box<dyn Trace>` in the target).

use std::cell::{Cell, RefCell};
use std::marker::PhantomData;
use std::mem::ManuallyDrop;
use std::panic::AssertUnwindSafe;

use proptest::prelude::*;
use serde::{Deserialize, Serialize};

use rust_cc::{collect_cycles, verif, Cc, Context, Finalize, Trace};
#[cfg(feature = "cleaners")]
use rust_cc::cleaners::{Cleanable, Cleaner};
#[cfg(feature = "weak-ptrs")]
use rust_cc::weak::Weak;

use crate::world::Violation;

#[derive(Default, Clone)]
struct Rec {
    trace: u32,
    fin: u32,
    reporting: bool,
    has_cc: bool,
}

thread_local! {
    static PROBES: RefCell<Vec<Rec>> = const { RefCell::new(Vec::new()) };
    static TARGET_TRACE: RefCell<Vec<u32>> = const { RefCell::new(Vec::new()) };
    static TARGET_DROP: RefCell<Vec<u32>> = const { RefCell::new(Vec::new()) };
    static OWNER: Cell<(u32, u32, u32)> = const { Cell::new((0, 0, 0)) }; // trace, finalize, drop
    /// address of a `RefCell<Probe>` the probe's finalizer reads back (a finalizer may look at its
    /// own cell through another path: `RefCell::finalize` must only hold a shared borrow)
    static SELF_CELL: Cell<usize> = const { Cell::new(0) };
    static SELF_READ: Cell<(u32, u32)> = const { Cell::new((0, 0)) }; // attempts, refused
}

pub struct Probe {
    idx: usize,
    cc: Option<Cc<Target>>,
}

unsafe impl Trace for Probe {
    fn trace(&self, ctx: &mut Context<'_>) {
        PROBES.with(|p| p.borrow_mut()[self.idx].trace += 1);
        self.cc.trace(ctx);
    }
}

impl Finalize for Probe {
    fn finalize(&self) {
        PROBES.with(|p| p.borrow_mut()[self.idx].fin += 1);
        let cell = SELF_CELL.with(|c| c.get());
        if cell != 0 {
            // SAFETY: the cell is a field of the owner that is being finalized right now
            let ok = unsafe { &*(cell as *const RefCell<Probe>) }.try_borrow().is_ok();
            SELF_READ.with(|c| {
                let v = c.get();
                c.set((v.0 + 1, v.1 + (!ok) as u32));
            });
        }
    }
}

pub struct Target {
    id: usize,
    back: RefCell<Option<Box<dyn Trace>>>,
    canary: u64,
}

unsafe impl Trace for Target {
    fn trace(&self, ctx: &mut Context<'_>) {
        TARGET_TRACE.with(|t| t.borrow_mut()[self.id] += 1);
        self.back.trace(ctx);
    }
}

impl Finalize for Target {}

impl Drop for Target {
    fn drop(&mut self) {
        TARGET_DROP.with(|t| t.borrow_mut()[self.id] += 1);
        self.canary = 0xDEAD;
    }
}

pub struct Owner<C: Trace + 'static> {
    c: C,
}

unsafe impl<C: Trace + 'static> Trace for Owner<C> {
    fn trace(&self, ctx: &mut Context<'_>) {
        OWNER.with(|o| {
            let v = o.get();
            o.set((v.0 + 1, v.1, v.2));
        });
        self.c.trace(ctx);
    }
}

impl<C: Trace + 'static> Finalize for Owner<C> {
    fn finalize(&self) {
        OWNER.with(|o| {
            let v = o.get();
            o.set((v.0, v.1 + 1, v.2));
        });
        self.c.finalize();
    }
}

impl<C: Trace + 'static> Drop for Owner<C> {
    fn drop(&mut self) {
        OWNER.with(|o| {
            let v = o.get();
            o.set((v.0, v.1, v.2 + 1));
        });
    }
}

#[derive(Clone, Copy, Debug, PartialEq, Eq, Hash, Serialize, Deserialize)]
pub enum Shape {
    Tuple(u8),
    Array(u8),
    Vec(u8),
    BoxedSlice(u8),
    Box1,
    OptSome,
    OptNone,
    ResOk,
    ResErr,
    RefFree,
    RefShared,
    RefMut,
    /// a shared borrow of the cell is leaked (`mem::forget(cell.borrow())`): tracing reports nothing,
    /// finalization is still forwarded once
    RefLeakShared,
    /// the probe's finalizer reads its own cell back through another path (must be borrowable)
    RefSelfRead,
    ManDrop,
    AssertUS,
    BoxDyn,
    Nest(u8),
    NonReporting,
    /// composition of up to three wrappers around a probe, innermost first: (depth, w0, w1, w2)
    Comp(u8, u8, u8, u8),
}

#[derive(Clone, Debug, PartialEq, Eq, Hash, Serialize, Deserialize)]
pub struct CCase {
    pub shape: Shape,
    /// bit i: position i owns a `Cc<Target>`
    pub has_cc: u64,
    /// which of the positions owning a `Cc` carries the cycle back to the owner (index among them); 255 = none
    pub cycle: u8,
    /// bit i: the program keeps an extra handle to target i
    pub extra: u64,
}

impl CCase {
    pub fn hash64(&self) -> u64 {
        use std::hash::{Hash, Hasher};
        let mut h = crate::case::Fnv(0xcbf29ce484222325);
        self.hash(&mut h);
        h.finish()
    }
}

pub const ARRAY_LENS: [u8; 6] = [0, 1, 2, 3, 8, 32];
pub const NESTS: u8 = 10;

pub fn shape_strategy() -> BoxedStrategy<Shape> {
    prop_oneof![
        6 => (1u8..=12).prop_map(Shape::Tuple),
        3 => (0u8..6).prop_map(Shape::Array),
        4 => (0u8..=40).prop_map(Shape::Vec),
        2 => (0u8..=12).prop_map(Shape::BoxedSlice),
        1 => Just(Shape::Box1),
        1 => Just(Shape::OptSome),
        1 => Just(Shape::OptNone),
        1 => Just(Shape::ResOk),
        1 => Just(Shape::ResErr),
        1 => Just(Shape::RefFree),
        1 => Just(Shape::RefShared),
        1 => Just(Shape::RefMut),
        1 => Just(Shape::RefLeakShared),
        1 => Just(Shape::RefSelfRead),
        1 => Just(Shape::ManDrop),
        1 => Just(Shape::AssertUS),
        1 => Just(Shape::BoxDyn),
        6 => (0u8..NESTS).prop_map(Shape::Nest),
        2 => Just(Shape::NonReporting),
        14 => (1u8..=3, 0u8..NWRAP, 0u8..NWRAP, 0u8..NWRAP).prop_map(|(d, a, b, c)| Shape::Comp(d, a, if d >= 2 { b } else { 0 }, if d >= 3 { SUB3[(c % 8) as usize] } else { 0 })),
    ]
    .boxed()
}

pub fn strategy() -> BoxedStrategy<CCase> {
    (shape_strategy(), prop_oneof![3 => any::<u64>(), 1 => Just(u64::MAX), 1 => Just(1u64)], prop_oneof![4 => any::<u8>(), 1 => Just(255u8)], prop_oneof![2 => Just(0u64), 1 => any::<u64>()])
        .prop_map(|(shape, has_cc, cycle, extra)| CCase { shape, has_cc, cycle, extra })
        .boxed()
}

pub struct Ctx {
    has_cc: u64,
    targets: Vec<Cc<Target>>,
    probe_target: Vec<Option<usize>>,
    /// probes created while this is false sit under a container that must not report them
    reporting: bool,
    /// targets not owned by any probe (only known through a Weak), kept alive by the caller
    side_ids: Vec<usize>,
    target_ids: Vec<usize>,
    /// a `ManuallyDrop` wrapper was built: probes below it are never dropped
    leaks: bool,
}

impl Ctx {
    pub fn probe(&mut self) -> Probe {
        let idx = PROBES.with(|p| {
            let mut p = p.borrow_mut();
            p.push(Rec { reporting: self.reporting, ..Rec::default() });
            p.len() - 1
        });
        let want = (self.has_cc >> (idx % 64)) & 1 == 1;
        let cc = if want {
            let id = TARGET_TRACE.with(|t| t.borrow().len());
            TARGET_TRACE.with(|t| t.borrow_mut().push(0));
            TARGET_DROP.with(|t| t.borrow_mut().push(0));
            let t = Cc::new(Target { id, back: RefCell::new(None), canary: 0xC0FFEE });
            self.targets.push(t.clone());
            self.target_ids.push(id);
            self.probe_target.push(Some(id));
            PROBES.with(|p| p.borrow_mut()[idx].has_cc = true);
            Some(t)
        } else {
            self.probe_target.push(None);
            None
        };
        Probe { idx, cc }
    }
    fn probes(&mut self, n: usize) -> Vec<Probe> {
        (0..n).map(|_| self.probe()).collect()
    }
}

#[derive(Default)]
pub struct CResult {
    pub violations: Vec<Violation>,
    pub positions: u32,
    pub cycle_reclaimed: bool,
    pub log: Vec<String>,
}

fn vio(r: &mut CResult, sig: &str, detail: String) {
    if r.violations.len() < 16 {
        r.violations.push(Violation { props: vec!["C17".into()], rule: sig.split('/').next().unwrap().into(), sig: sig.into(), detail, op: -1, hard: false });
    }
}

#[derive(Clone, Copy, PartialEq)]
enum Hold {
    None,
    Shared,
    Mut,
}

/// The common procedure. `build` creates the container from probes; `hold` says whether a
/// RefCell borrow is held over the first collection (only meaningful for `RefCell<Probe>`).
fn exercise<C, B, H>(case: &CCase, r: &mut CResult, leaks_probes: bool, build: B, with_hold: H)
where
    C: Trace + 'static,
    B: FnOnce(&mut Ctx) -> C,
    H: FnOnce(&Owner<C>, &mut dyn FnMut()),
{
    PROBES.with(|p| p.borrow_mut().clear());
    TARGET_TRACE.with(|t| t.borrow_mut().clear());
    TARGET_DROP.with(|t| t.borrow_mut().clear());
    OWNER.with(|o| o.set((0, 0, 0)));
    #[cfg(feature = "auto-collect")]
    let _ = rust_cc::config::config(|c| c.set_auto_collect(false));
    let mut ctx = Ctx { has_cc: case.has_cc, targets: Vec::new(), probe_target: Vec::new(), reporting: true, side_ids: Vec::new(), target_ids: Vec::new(), leaks: false };
    let c = build(&mut ctx);
    let owner = Cc::new(Owner { c });
    let owner_box = verif::object_snapshot(&owner).box_addr;
    let n_targets = ctx.targets.len();
    // `cyc` is the id of the target that carries the cycle back to the owner
    let cyc = if case.cycle == 255 || n_targets == 0 { None } else { Some(ctx.target_ids[case.cycle as usize % n_targets]) };
    let total_ids = TARGET_TRACE.with(|t| t.borrow().len());
    let mut target_boxes: Vec<usize> = vec![0; total_ids];
    for (k, t) in ctx.targets.iter().enumerate() {
        target_boxes[ctx.target_ids[k]] = verif::object_snapshot(t).box_addr;
        if Some(ctx.target_ids[k]) == cyc {
            *t.back.borrow_mut() = Some(Box::new(owner.clone()) as Box<dyn Trace>);
        }
    }
    // program handles: only the requested extras survive
    let mut extras: Vec<(usize, Cc<Target>)> = Vec::new();
    let ids = ctx.target_ids.clone();
    for (k, t) in ctx.targets.drain(..).enumerate() {
        if (case.extra >> (k % 64)) & 1 == 1 {
            extras.push((ids[k], t));
        } else {
            drop(t);
        }
    }
    collect_cycles(); // empties the buffer (everything is reachable from `owner`)
    let nprobes = PROBES.with(|p| p.borrow().len());
    r.positions = nprobes as u32;
    PROBES.with(|p| p.borrow_mut().iter_mut().for_each(|x| x.trace = 0));
    TARGET_TRACE.with(|t| t.borrow_mut().iter_mut().for_each(|x| *x = 0));
    OWNER.with(|o| o.set((0, 0, 0)));

    // ---- phase A: owner held, buffered, collection (possibly under a RefCell borrow) ----
    drop(owner.clone());
    verif::trace_reports(true);
    let _ = verif::take_trace_reports();
    {
        let mut go = || collect_cycles();
        with_hold(&owner, &mut go);
    }
    let reports = verif::take_trace_reports();
    verif::trace_reports(false);
    let n_a = OWNER.with(|o| o.get().0);
    if n_a == 0 {
        vio(r, "owner-not-traced", "the buffered owner was not traced by the collection".into());
    }
    let probes: Vec<Rec> = PROBES.with(|p| p.borrow().clone());
    for (i, p) in probes.iter().enumerate() {
        let exp = if p.reporting { n_a } else { 0 };
        if p.trace != exp {
            let sig = format!("probe-trace-count/{:?}/{}", shape_class(case.shape), if p.trace < exp { "skipped" } else { "extra" });
            vio(r, &sig, format!("position {} of {} was traced {} times, its owner {} times", i, describe(case.shape), p.trace, n_a));
        }
    }
    // report log: exactly the owned Ccs, each as often as its holder was traced
    let ttrace: Vec<u32> = TARGET_TRACE.with(|t| t.borrow().clone());
    let mut expected: std::collections::BTreeMap<usize, u32> = std::collections::BTreeMap::new();
    for (i, p) in probes.iter().enumerate() {
        if let Some(t) = ctx.probe_target[i] {
            if p.trace > 0 {
                *expected.entry(target_boxes[t]).or_insert(0) += p.trace;
            }
        }
    }
    if let Some(t) = cyc {
        if ttrace[t] > 0 {
            *expected.entry(owner_box).or_insert(0) += ttrace[t];
        }
    }
    let mut got: std::collections::BTreeMap<usize, u32> = std::collections::BTreeMap::new();
    for a in &reports {
        *got.entry(*a).or_insert(0) += 1;
    }
    if got != expected {
        let extra: Vec<_> = got.iter().filter(|(a, n)| expected.get(a).copied().unwrap_or(0) < **n).collect();
        let missing: Vec<_> = expected.iter().filter(|(a, n)| got.get(a).copied().unwrap_or(0) < **n).collect();
        let sig = format!("report-log/{:?}/{}", shape_class(case.shape), if !extra.is_empty() { "extra" } else { "missing" });
        vio(r, &sig, format!("allocations reported to the collector differ: unexpected {:?}, missing {:?}", extra, missing));
    }
    // nothing may have been reclaimed
    if OWNER.with(|o| o.get().2) != 0 || TARGET_DROP.with(|t| t.borrow().iter().any(|d| *d != 0)) {
        vio(r, &format!("reclaimed-while-held/{:?}", shape_class(case.shape)), "a collection with the owner held dropped the owner or a target".into());
        // do not touch anything any more
        std::mem::forget(owner);
        std::mem::forget(extras);
        return;
    }
    if owner.strong_count() != 1 + cyc.is_some() as u32 {
        vio(r, "owner-count", format!("owner strong count {} after phase A", owner.strong_count()));
    }

    // ---- phase B: release the owner ----------------------------------------------------
    let owner_reachable = cyc.map_or(false, |t| extras.iter().any(|e| e.0 == t));
    drop(owner);
    collect_cycles();
    collect_cycles();
    let exp_fin = if cfg!(feature = "finalization") { 1 } else { 0 };
    let cls = shape_class(case.shape);
    let leaks = leaks_probes || ctx.leaks;
    let held_ids: Vec<usize> = extras.iter().map(|e| e.0).collect();
    // under a ManuallyDrop the probes' Ccs are never released: their targets may leak, unless the collector itself
    // reclaims them as members of the garbage set (cycle routed through the container, no program handle)
    let leak_ok = |i: usize| leaks && (cyc.is_none() || held_ids.contains(&i));
    if owner_reachable {
        // the cycle is still reachable through a program-held target: nothing may be reclaimed
        if OWNER.with(|o| o.get().2) != 0 || TARGET_DROP.with(|t| t.borrow().iter().any(|d| *d != 0)) {
            vio(r, &format!("reclaimed-while-reachable/{}", cls), "owner or a target was dropped while reachable through a held target".into());
            std::mem::forget(extras);
            return;
        }
    } else {
        let (_, ofin, odrop) = OWNER.with(|o| o.get());
        if odrop != 1 {
            vio(r, &format!("owner-not-reclaimed/{}", cls), format!("owner dropped {} times after its release (cycle through target {:?})", odrop, cyc));
        } else if cyc.is_some() {
            r.cycle_reclaimed = true;
        }
        if ofin != exp_fin {
            vio(r, "owner-finalize-count", format!("owner finalized {} times", ofin));
        }
        let tdrop: Vec<u32> = TARGET_DROP.with(|t| t.borrow().clone());
        for (i, d) in tdrop.iter().enumerate() {
            if ctx.side_ids.contains(&i) {
                continue;
            }
            let held = extras.iter().any(|e| e.0 == i);
            if held && *d != 0 {
                vio(r, &format!("held-target-dropped/{}", cls), format!("target {} has a program handle but was dropped", i));
            }
            if !held && *d != 1 && !leak_ok(i) {
                vio(r, &format!("target-not-reclaimed/{}", cls), format!("target {} was dropped {} times after the owner's release", i, d));
            }
        }
    }
    let tdrop: Vec<u32> = TARGET_DROP.with(|t| t.borrow().clone());
    for (i, t) in &extras {
        if tdrop[*i] == 0 && (t.canary != 0xC0FFEE || t.id != *i) {
            vio(r, "held-target-damaged", format!("target {} reads canary {:#x}", i, t.canary));
        }
    }
    for (i, t) in extras {
        if tdrop[i] == 0 {
            drop(t);
        } else {
            std::mem::forget(t);
        }
    }
    collect_cycles();
    collect_cycles();
    // everything released: all reclaimed, finalizers forwarded exactly once
    let (_, ofin, odrop) = OWNER.with(|o| o.get());
    if odrop != 1 {
        vio(r, &format!("owner-not-reclaimed-at-end/{}", cls), format!("owner dropped {} times by the end", odrop));
    }
    if ofin != exp_fin {
        vio(r, "owner-finalize-count-at-end", format!("owner finalized {} times by the end", ofin));
    }
    let probes: Vec<Rec> = PROBES.with(|p| p.borrow().clone());
    for (i, p) in probes.iter().enumerate() {
        if p.fin != ofin {
            let sig = format!("probe-finalize-count/{}/{}", cls, if p.fin < ofin { "skipped" } else { "extra" });
            vio(r, &sig, format!("position {} of {} was finalized {} times, its owner {} times", i, describe(case.shape), p.fin, ofin));
        }
    }
    let tdrop: Vec<u32> = TARGET_DROP.with(|t| t.borrow().clone());
    for (i, d) in tdrop.iter().enumerate() {
        if ctx.side_ids.contains(&i) {
            continue;
        }
        if *d != 1 && !leak_ok(i) {
            vio(r, &format!("target-drop-count-at-end/{}", cls), format!("target {} was dropped {} times by the end", i, d));
        }
    }
}

pub fn describe(s: Shape) -> String {
    match s {
        Shape::Comp(d, a, b, c) => {
            let mut t = String::from("Probe");
            for (lvl, w) in [a, b, c].iter().enumerate().take(d.clamp(1, 3) as usize) {
                let w = if lvl == 2 && !SUB3.contains(&(*w % NWRAP)) { 0 } else { *w % NWRAP };
                t = format!("{}<{}>", WRAP_NAMES[w as usize], t);
            }
            t
        }
        other => format!("{:?}", other),
    }
}

fn shape_class(s: Shape) -> &'static str {
    match s {
        Shape::Tuple(_) => "tuple",
        Shape::Array(_) => "array",
        Shape::Vec(_) => "vec",
        Shape::BoxedSlice(_) => "boxed-slice",
        Shape::Box1 => "box",
        Shape::OptSome | Shape::OptNone => "option",
        Shape::ResOk | Shape::ResErr => "result",
        Shape::RefFree | Shape::RefShared | Shape::RefMut | Shape::RefLeakShared | Shape::RefSelfRead => "refcell",
        Shape::ManDrop => "manually-drop",
        Shape::AssertUS => "assert-unwind-safe",
        Shape::BoxDyn => "box-dyn",
        Shape::Nest(_) => "nested",
        Shape::NonReporting => "non-reporting-leaves",
        Shape::Comp(..) => "composed",
    }
}

fn nohold<C: Trace + 'static>(_: &Owner<C>, go: &mut dyn FnMut()) {
    go()
}

macro_rules! tuple_case {
    ($case:expr, $r:expr, $($p:ident),+) => {
        exercise($case, $r, false, |ctx| { $( let $p = ctx.probe(); )+ ($($p,)+) }, nohold)
    };
}

fn array_case<const N: usize>(case: &CCase, r: &mut CResult) {
    exercise(
        case,
        r,
        false,
        |ctx| {
            let v = ctx.probes(N);
            let a: [Probe; N] = match v.try_into() {
                Ok(a) => a,
                Err(_) => unreachable!(),
            };
            a
        },
        nohold,
    )
}

pub fn run(case: &CCase, logging: bool) -> CResult {
    let mut r = CResult::default();
    let rr = &mut r;
    let _ = logging;
    match case.shape {
        Shape::Tuple(n) => match n {
            1 => tuple_case!(case, rr, a),
            2 => tuple_case!(case, rr, a, b),
            3 => tuple_case!(case, rr, a, b, c),
            4 => tuple_case!(case, rr, a, b, c, d),
            5 => tuple_case!(case, rr, a, b, c, d, e),
            6 => tuple_case!(case, rr, a, b, c, d, e, f),
            7 => tuple_case!(case, rr, a, b, c, d, e, f, g),
            8 => tuple_case!(case, rr, a, b, c, d, e, f, g, h),
            9 => tuple_case!(case, rr, a, b, c, d, e, f, g, h, i),
            10 => tuple_case!(case, rr, a, b, c, d, e, f, g, h, i, j),
            11 => tuple_case!(case, rr, a, b, c, d, e, f, g, h, i, j, k),
            _ => tuple_case!(case, rr, a, b, c, d, e, f, g, h, i, j, k, l),
        },
        Shape::Array(k) => match ARRAY_LENS[k as usize % 6] {
            0 => array_case::<0>(case, rr),
            1 => array_case::<1>(case, rr),
            2 => array_case::<2>(case, rr),
            3 => array_case::<3>(case, rr),
            8 => array_case::<8>(case, rr),
            _ => array_case::<32>(case, rr),
        },
        Shape::Vec(n) => exercise(case, rr, false, |ctx| ctx.probes(n as usize), nohold),
        Shape::BoxedSlice(n) => exercise(case, rr, false, |ctx| ctx.probes(n as usize).into_boxed_slice(), nohold),
        Shape::Box1 => exercise(case, rr, false, |ctx| Box::new(ctx.probe()), nohold),
        Shape::OptSome => exercise(case, rr, false, |ctx| Some(ctx.probe()), nohold),
        Shape::OptNone => exercise(case, rr, false, |_ctx| None::<Probe>, nohold),
        Shape::ResOk => exercise(case, rr, false, |ctx| Ok::<Probe, Probe>(ctx.probe()), nohold),
        Shape::ResErr => exercise(case, rr, false, |ctx| Err::<Probe, Probe>(ctx.probe()), nohold),
        Shape::RefFree => exercise(case, rr, false, |ctx| RefCell::new(ctx.probe()), nohold),
        Shape::RefShared => exercise(
            case,
            rr,
            false,
            |ctx| {
                ctx.reporting = false;
                RefCell::new(ctx.probe())
            },
            |o: &Owner<RefCell<Probe>>, go| {
                let _g = o.c.borrow();
                go();
            },
        ),
        Shape::RefMut => exercise(
            case,
            rr,
            false,
            |ctx| {
                ctx.reporting = false;
                RefCell::new(ctx.probe())
            },
            |o: &Owner<RefCell<Probe>>, go| {
                let _g = o.c.borrow_mut();
                go();
            },
        ),
        Shape::RefLeakShared => {
            if cfg!(feature = "finalization") {
                // the leaked borrow makes the cell's content invisible to tracing for ever, so a cycle
                // through it is (rightly) never reclaimed: this shape is exercised without a cycle
                let case = &CCase { cycle: 255, extra: 0, ..case.clone() };
                exercise(
                    case,
                    rr,
                    false,
                    |ctx| {
                        ctx.reporting = false;
                        let c = RefCell::new(ctx.probe());
                        std::mem::forget(c.borrow());
                        c
                    },
                    nohold,
                );
            }
        }
        Shape::RefSelfRead => {
            SELF_READ.with(|c| c.set((0, 0)));
            exercise(
                case,
                rr,
                false,
                |ctx| RefCell::new(ctx.probe()),
                |o: &Owner<RefCell<Probe>>, go| {
                    SELF_CELL.with(|c| c.set(&o.c as *const RefCell<Probe> as usize));
                    go();
                },
            );
            SELF_CELL.with(|c| c.set(0));
            let (n, refused) = SELF_READ.with(|c| c.get());
            if refused != 0 {
                vio(rr, "refcell-finalize-holds-exclusive-borrow", format!("{} of {} finalizers could not borrow their own cell while RefCell::finalize forwarded to them", refused, n));
            }
        }
        Shape::ManDrop => exercise(case, rr, true, |ctx| ManuallyDrop::new(ctx.probe()), nohold),
        Shape::AssertUS => exercise(case, rr, false, |ctx| AssertUnwindSafe(ctx.probe()), nohold),
        Shape::BoxDyn => exercise(case, rr, false, |ctx| Box::new(ctx.probe()) as Box<dyn Trace>, nohold),
        Shape::Nest(k) => match k % NESTS {
            0 => exercise(case, rr, false, |ctx| vec![Some(ctx.probe()), None, Some(ctx.probe())], nohold),
            1 => exercise(case, rr, false, |ctx| Some(Box::new((ctx.probe(), ctx.probe()))), nohold),
            2 => exercise(case, rr, false, |ctx| RefCell::new(ctx.probes(3)), nohold),
            3 => exercise(case, rr, false, |ctx| (ctx.probes(2), [ctx.probe(), ctx.probe()]), nohold),
            4 => exercise(case, rr, false, |ctx| Box::new(Ok::<Vec<Probe>, Probe>(ctx.probes(3))), nohold),
            5 => exercise(case, rr, false, |ctx| Err::<(Probe,), Option<Probe>>(Some(ctx.probe())), nohold),
            6 => exercise(case, rr, false, |ctx| [Some(ctx.probe()), None, Some(ctx.probe())], nohold),
            7 => exercise(case, rr, false, |ctx| vec![Box::new(ctx.probe()) as Box<dyn Trace>, Box::new((ctx.probe(), ctx.probe())) as Box<dyn Trace>], nohold),
            8 => exercise(case, rr, false, |ctx| RefCell::new(Some((ctx.probe(), ctx.probes(2)))), nohold),
            _ => exercise(case, rr, false, |ctx| AssertUnwindSafe(Box::new([(ctx.probe(), Some(ctx.probe())), (ctx.probe(), None)])), nohold),
        },
        Shape::NonReporting => non_reporting(case, rr),
        Shape::Comp(d, a, b, c) => {
            let k = [a, b, c];
            d3::<Probe>(&k[..(d.clamp(1, 3) as usize)], case, rr)
        }
    }
    r
}

/// A tuple that mixes one probe with leaves that must report nothing: a `Weak` to a live
/// target, a `Cleaner` with an allocated map, a `Cleanable`, `PhantomData`, scalars, strings.
fn non_reporting(case: &CCase, r: &mut CResult) {
    #[cfg(all(feature = "weak-ptrs", feature = "cleaners"))]
    {
        let keep: RefCell<Vec<Cc<Target>>> = RefCell::new(Vec::new());
        exercise(
            case,
            r,
            false,
            |ctx| {
                let p = ctx.probe();
                // an extra live target only known through a Weak
                let sid = TARGET_TRACE.with(|t| t.borrow().len());
                TARGET_TRACE.with(|t| t.borrow_mut().push(0));
                TARGET_DROP.with(|t| t.borrow_mut().push(0));
                let side = Cc::new(Target { id: sid, back: RefCell::new(None), canary: 0xC0FFEE });
                let w: Weak<Target> = side.downgrade();
                ctx.side_ids.push(sid);
                keep.borrow_mut().push(side);
                let cleaner = Cleaner::new();
                let cleanable: Cleanable = cleaner.register(|| {});
                let cleaner2 = Cleaner::new();
                (p, w, cleaner, cleanable, PhantomData::<Target>, 7u32, String::from("x"), cleaner2, 1.5f64, ())
            },
            nohold,
        );
        drop(keep);
        collect_cycles();
    }
    #[cfg(not(all(feature = "weak-ptrs", feature = "cleaners")))]
    exercise(case, r, false, |ctx| (ctx.probe(), PhantomData::<Target>, 7u32, String::from("x"), 1.5f64, ()), nohold);
}

pub fn run_on_thread(case: &CCase, logging: bool) -> CResult {
    let c = case.clone();
    let r = std::thread::Builder::new().stack_size(2 << 20).spawn(move || run(&c, logging)).expect("spawn").join();
    crate::alloc::end_case();
    r.unwrap_or_else(|_| {
        let mut r = CResult::default();
        r.violations.push(Violation {
            props: vec!["C17".into()],
            rule: "panic".into(),
            sig: format!("case-panicked/{}", crate::engine::last_panic_loc()),
            detail: "the container case panicked".into(),
            op: -1,
            hard: true,
        });
        r
    })
}

// ---------------------------------------------------------------------------------------------
// Systematic compositions: every nesting of up to three wrappers (innermost first) around a
// probe, built through blanket `Build` impls, so that no combination depends on a hand-picked list.

pub const NWRAP: u8 = 15;
pub const WRAP_NAMES: [&str; NWRAP as usize] = ["Vec", "[T;2]", "Box<[T]>", "Box", "Option", "Result::Ok", "Result::Err", "(T,)", "(u32,T)", "(T,T)", "RefCell", "ManuallyDrop", "AssertUnwindSafe", "[T;1]", "Box<dyn Trace>"];

pub trait Build: Trace + Sized + 'static {
    fn build(ctx: &mut Ctx) -> Self;
}

impl Build for Probe {
    fn build(ctx: &mut Ctx) -> Self {
        ctx.probe()
    }
}
impl<T: Build> Build for Vec<T> {
    fn build(ctx: &mut Ctx) -> Self {
        vec![T::build(ctx), T::build(ctx)]
    }
}
impl<T: Build> Build for [T; 2] {
    fn build(ctx: &mut Ctx) -> Self {
        [T::build(ctx), T::build(ctx)]
    }
}
impl<T: Build> Build for [T; 1] {
    fn build(ctx: &mut Ctx) -> Self {
        [T::build(ctx)]
    }
}
impl<T: Build> Build for Box<[T]> {
    fn build(ctx: &mut Ctx) -> Self {
        vec![T::build(ctx), T::build(ctx)].into_boxed_slice()
    }
}
impl<T: Build> Build for Box<T> {
    fn build(ctx: &mut Ctx) -> Self {
        Box::new(T::build(ctx))
    }
}
impl<T: Build> Build for Option<T> {
    fn build(ctx: &mut Ctx) -> Self {
        Some(T::build(ctx))
    }
}
impl<T: Build> Build for Result<T, u8> {
    fn build(ctx: &mut Ctx) -> Self {
        Ok(T::build(ctx))
    }
}
impl<T: Build> Build for Result<u8, T> {
    fn build(ctx: &mut Ctx) -> Self {
        Err(T::build(ctx))
    }
}
impl<T: Build> Build for (T,) {
    fn build(ctx: &mut Ctx) -> Self {
        (T::build(ctx),)
    }
}
impl<T: Build> Build for (u32, T) {
    fn build(ctx: &mut Ctx) -> Self {
        (7, T::build(ctx))
    }
}
impl<T: Build> Build for (T, T) {
    fn build(ctx: &mut Ctx) -> Self {
        (T::build(ctx), T::build(ctx))
    }
}
impl<T: Build> Build for RefCell<T> {
    fn build(ctx: &mut Ctx) -> Self {
        RefCell::new(T::build(ctx))
    }
}
impl<T: Build> Build for ManuallyDrop<T> {
    fn build(ctx: &mut Ctx) -> Self {
        ctx.leaks = true;
        ManuallyDrop::new(T::build(ctx))
    }
}
impl<T: Build> Build for AssertUnwindSafe<T> {
    fn build(ctx: &mut Ctx) -> Self {
        AssertUnwindSafe(T::build(ctx))
    }
}

/// `Box<dyn Trace>` holding a `T` (harness-side newtype only to make the composition nameable;
/// its `Trace`/`Finalize` forward to the crate's impls for `Box<dyn Trace>`).
pub struct DynOf<T>(Box<dyn Trace>, PhantomData<T>);
unsafe impl<T: 'static> Trace for DynOf<T> {
    fn trace(&self, ctx: &mut Context<'_>) {
        self.0.trace(ctx);
    }
}
impl<T: 'static> Finalize for DynOf<T> {
    fn finalize(&self) {
        self.0.finalize();
    }
}
impl<T: Build> Build for DynOf<T> {
    fn build(ctx: &mut Ctx) -> Self {
        DynOf(Box::new(T::build(ctx)) as Box<dyn Trace>, PhantomData)
    }
}

fn exercise_dyn(case: &CCase, r: &mut CResult, build: &mut dyn FnMut(&mut Ctx) -> Box<dyn Trace>) {
    exercise(case, r, false, |ctx: &mut Ctx| build(ctx), nohold::<Box<dyn Trace>>)
}

fn comp_leaf<T: Build>(case: &CCase, r: &mut CResult) {
    exercise_dyn(case, r, &mut |ctx| Box::new(T::build(ctx)) as Box<dyn Trace>)
}

macro_rules! dispatch {
    ($name:ident, $next:ident) => {
        fn $name<T: Build>(k: &[u8], case: &CCase, r: &mut CResult) {
            if k.is_empty() {
                return comp_leaf::<T>(case, r);
            }
            let rest = &k[1..];
            match k[0] % NWRAP {
                0 => $next::<Vec<T>>(rest, case, r),
                1 => $next::<[T; 2]>(rest, case, r),
                2 => $next::<Box<[T]>>(rest, case, r),
                3 => $next::<Box<T>>(rest, case, r),
                4 => $next::<Option<T>>(rest, case, r),
                5 => $next::<Result<T, u8>>(rest, case, r),
                6 => $next::<Result<u8, T>>(rest, case, r),
                7 => $next::<(T,)>(rest, case, r),
                8 => $next::<(u32, T)>(rest, case, r),
                9 => $next::<(T, T)>(rest, case, r),
                10 => $next::<RefCell<T>>(rest, case, r),
                11 => $next::<ManuallyDrop<T>>(rest, case, r),
                12 => $next::<AssertUnwindSafe<T>>(rest, case, r),
                13 => $next::<[T; 1]>(rest, case, r),
                _ => $next::<DynOf<T>>(rest, case, r),
            }
        }
    };
}
/// The outermost level of depth-3 compositions is restricted to eight wrappers (keeps the number
/// of instantiated types at 15 + 225 + 1 800 instead of 3 615; compile time of the harness).
pub const SUB3: [u8; 8] = [0, 1, 2, 4, 9, 10, 11, 14];
fn d1<T: Build>(k: &[u8], case: &CCase, r: &mut CResult) {
    if k.is_empty() {
        return comp_leaf::<T>(case, r);
    }
    match k[0] % NWRAP {
        1 => comp_leaf::<[T; 2]>(case, r),
        2 => comp_leaf::<Box<[T]>>(case, r),
        4 => comp_leaf::<Option<T>>(case, r),
        9 => comp_leaf::<(T, T)>(case, r),
        10 => comp_leaf::<RefCell<T>>(case, r),
        11 => comp_leaf::<ManuallyDrop<T>>(case, r),
        14 => comp_leaf::<DynOf<T>>(case, r),
        _ => comp_leaf::<Vec<T>>(case, r),
    }
}
dispatch!(d2, d1);
dispatch!(d3, d2);

/// Every composition of depth 1..=3, each with every position owning a `Cc`, once without a
/// cycle and once with the cycle routed through each of the first positions.
pub fn fixed_grid(max_depth: u8) -> Vec<CCase> {
    let mut v = Vec::new();
    for d in 1..=max_depth.min(3) {
        let n = NWRAP as u32;
        let total = if d == 3 { n * n * 8 } else { n.pow(d as u32) };
        for code in 0..total {
            let a = (code % n) as u8;
            let b = ((code / n) % n) as u8;
            let c = if d == 3 { SUB3[((code / n / n) % 8) as usize] } else { 0 };
            let shape = Shape::Comp(d, a, b, c);
            v.push(CCase { shape, has_cc: u64::MAX, cycle: 255, extra: 0 });
            v.push(CCase { shape, has_cc: u64::MAX, cycle: (code % 8) as u8, extra: 0 });
            v.push(CCase { shape, has_cc: u64::MAX, cycle: (code % 3) as u8, extra: 1 << (code % 5) });
        }
    }
    v
}
