//! rccv command line: engines and replay. Driven by /verif/check.

use std::collections::{BTreeMap, BTreeSet};
use std::io::Write;

use proptest::test_runner::{Config, RngAlgorithm, RngSeed, TestCaseError, TestError, TestRunner};
use serde::{Deserialize, Serialize};
use serde_json::json;

use rccv::case::*;
use rccv::engine::*;
use rccv::gen;
use rccv::run::*;
use rccv::world::CaseResult;

fn arg<'a>(args: &'a [String], name: &str) -> Option<&'a str> {
    args.iter().position(|a| a == name).and_then(|i| args.get(i + 1)).map(|s| s.as_str())
}

fn main() {
    std::env::set_var("RUST_BACKTRACE", "0");
    rccv::engine::install_quiet_hook();
    let args: Vec<String> = std::env::args().collect();
    let cmd = args.get(1).map(|s| s.as_str()).unwrap_or("");
    let code = match cmd {
        "g1" => cmd_g1(&args),
        "g4" => cmd_g4(&args),
        "g2" => cmd_g2(&args),
        "replay" => cmd_replay(&args),
        "policy" => cmd_simple(&args, "policy"),
        "limits" => cmd_simple(&args, "limits"),
        "layout" => cmd_simple(&args, "layout"),
        "fwd" => cmd_simple(&args, "fwd"),
        "containers" => cmd_simple(&args, "containers"),
        "threads" => cmd_simple(&args, "threads"),
        "teardown" => cmd_simple(&args, "teardown"),
        "teardown-child" => {
            let c: rccv::threads::DCase = serde_json::from_str(args.get(2).map(|s| s.as_str()).unwrap_or("{}")).expect("teardown case");
            rccv::threads::teardown_child(&c)
        }
        "decode" => {
            // converts a libFuzzer input file into a JSON replay file
            let bytes = std::fs::read(args.get(2).expect("input file")).expect("read input");
            let case = rccv::decode::decode(&bytes);
            let prop = arg(&args, "--prop").unwrap_or("C01");
            let v = json!({"property": prop, "engine": "g3-libfuzzer", "kind": "heap", "configuration": arg(&args, "--config-name").unwrap_or("full-dev"), "case": case, "signature": "fuzzer-found"});
            match arg(&args, "--out") {
                Some(o) => std::fs::write(o, serde_json::to_string_pretty(&v).unwrap()).expect("write"),
                None => println!("{}", serde_json::to_string_pretty(&v).unwrap()),
            }
            0
        }
        "features" => {
            println!(
                "finalization={} weak-ptrs={} cleaners={} auto-collect={} debug_assertions={}",
                cfg!(feature = "finalization"),
                cfg!(feature = "weak-ptrs"),
                cfg!(feature = "cleaners"),
                cfg!(feature = "auto-collect"),
                cfg!(debug_assertions)
            );
            0
        }
        _ => {
            eprintln!("usage: rccv g1|replay|features ...");
            2
        }
    };
    std::process::exit(code);
}

fn cmd_g1(args: &[String]) -> i32 {
    let prop = arg(args, "--prop").unwrap_or("C01").to_string();
    let profile = gen::profile(arg(args, "--profile").unwrap_or("general"));
    let cases: u32 = arg(args, "--cases").and_then(|s| s.parse().ok()).unwrap_or(1000);
    let seed: u64 = arg(args, "--seed").and_then(|s| s.parse().ok()).unwrap_or(1);
    let max_faults: usize = arg(args, "--faults").and_then(|s| s.parse().ok()).unwrap_or(0);
    let out = arg(args, "--out").map(|s| s.to_string());
    let replay_out = arg(args, "--replay-out").map(|s| s.to_string());
    let cfg_name = arg(args, "--config-name").unwrap_or("?").to_string();
    let known: Vec<String> = arg(args, "--known").map(|s| load_known(s, &prop)).unwrap_or_default();

    let acc = std::cell::RefCell::new(Acc::new(&prop));
    if let Some(r) = &replay_out {
        rccv::crash::install(r);
    }
    let opts = RunOpts { strict: false, logging: false, known: known.clone(), quiesce_mid: false, timeout_s: 20, persist: replay_out.is_some(), prop: prop.clone(), config: cfg_name.clone() };
    let mut seed_bytes = [0u8; 32];
    for (i, b) in seed_bytes.iter_mut().enumerate() {
        *b = (hash_seed(&[&prop, &cfg_name, profile.name], &[seed, i as u64]) & 0xff) as u8;
    }
    let mut runner = TestRunner::new(Config {
        cases,
        failure_persistence: None,
        max_shrink_iters: 4000,
        rng_algorithm: RngAlgorithm::ChaCha,
        // distinct case streams per (property, configuration, profile): the same VERIF_SEED explores
        // different programs in different checks
        rng_seed: RngSeed::Fixed(hash_seed(&[&prop, &cfg_name, profile.name], &[seed])),
        ..Config::default()
    });
    let _ = seed_bytes;
    let strat = gen::case(&profile, max_faults);
    let result = runner.run(&strat, |(case, freq)| {
        let v = eval_case(&case, &freq, &opts, &prop, &mut acc.borrow_mut());
        match v {
            Verdict::Pass => Ok(()),
            Verdict::Fail(sig) => Err(TestCaseError::fail(sig)),
            Verdict::Hang => Err(TestCaseError::fail("HANG".to_string())),
        }
    });
    let mut acc = acc.into_inner();
    let mut violation = serde_json::Value::Null;
    let mut code = 0;
    match result {
        Ok(()) => {
            if acc.hangs > 0 {
                code = 2;
                violation = json!({"hang": true, "case": acc.hang_case});
            }
        }
        Err(TestError::Fail(reason, (case, freq))) => {
            // re-run the minimal case to obtain the concrete faulted case and the details
            acc.frozen = true;
            let (concrete, res) = concretise(&case, &freq, &RunOpts { logging: true, ..opts.clone() });
            let reason = reason.message().to_string();
            if reason == "HANG" || acc.hangs > 0 {
                code = 2;
                violation = json!({"hang": true, "case": concrete});
            } else {
                code = 1;
                let vio: Vec<_> = res.as_ref().map(|r| r.violations.clone()).unwrap_or_default();
                let sig = vio.iter().find(|v| v.props.iter().any(|p| p == &prop)).map(|v| v.sig.clone()).unwrap_or(reason.clone());
                let replay = json!({
                    "property": prop, "engine": "g1", "configuration": cfg_name, "profile": profile.name,
                    "case": concrete, "signature": sig, "violations": vio,
                    "log": res.as_ref().map(|r| r.log.clone()).unwrap_or_default(),
                });
                if let Some(path) = &replay_out {
                    let _ = std::fs::write(path, serde_json::to_string_pretty(&replay).unwrap());
                }
                violation = json!({"signature": sig, "replay": replay_out, "violations": vio});
            }
        }
        Err(TestError::Abort(r)) => {
            eprintln!("proptest aborted: {}", r);
            code = 2;
        }
    }
    if acc.harness_errors > 0 {
        code = 2;
    }
    let report = acc.report(json!({"engine": "g1", "profile": profile.name, "config": cfg_name, "seed": seed, "violation": violation}));
    if let Some(out) = out {
        std::fs::write(&out, serde_json::to_string(&report).unwrap()).expect("write report");
    } else {
        println!("{}", serde_json::to_string_pretty(&report).unwrap());
    }
    code
}

/// The reduced alphabet of the small-scope enumerator. Selectors 0/128/255 address the first,
/// middle and last live handle, i.e. every handle as long as at most three are live.
fn g2_alphabet() -> Vec<Op> {
    let sels = [0u8, 128, 255];
    let mut v = Vec::new();
    v.push(Op::New(Spec::default()));
    v.push(Op::New(Spec { fin: vec![FinOp::StashNeighbourSlot(0, 0)], dq: 1 }));
    for a in sels {
        v.push(Op::Clone(a));
        v.push(Op::Drop(a));
        v.push(Op::MarkAlive(a));
        v.push(Op::Downgrade(a));
        v.push(Op::Upgrade(a));
        v.push(Op::TryUnwrap(a));
        for s in [0u8, 3] {
            v.push(Op::ClearSlot { h: a, s });
            for b in sels {
                v.push(Op::SetSlot { h: a, s, t: b });
            }
        }
        v.push(Op::StoreWeak { h: a, ws: 0, w: 0 });
    }
    v.push(Op::Collect);
    v.push(Op::WeakDrop(0));
    v.push(Op::DropLoose(0));
    v
}

/// G2: small-scope enumerator. Every sequence `New, a_2, ..., a_d` over the reduced alphabet,
/// optionally each also with a fault at the first trace exit. Deterministic, seed-independent.
fn cmd_g2(args: &[String]) -> i32 {
    let prop = arg(args, "--prop").unwrap_or("C01").to_string();
    let depth: usize = arg(args, "--depth").and_then(|s| s.parse().ok()).unwrap_or(4);
    let with_faults: u32 = arg(args, "--faults").and_then(|s| s.parse().ok()).unwrap_or(0);
    let shard: usize = arg(args, "--g2-shard").and_then(|s| s.parse().ok()).unwrap_or(0);
    let shards: usize = arg(args, "--g2-shards").and_then(|s| s.parse().ok()).unwrap_or(1);
    let out = arg(args, "--out").map(|s| s.to_string());
    let replay_out = arg(args, "--replay-out").map(|s| s.to_string());
    let cfg_name = arg(args, "--config-name").unwrap_or("?").to_string();
    let known: Vec<String> = arg(args, "--known").map(|s| load_known(s, &prop)).unwrap_or_default();
    if let Some(r) = &replay_out {
        rccv::crash::install(r);
    }
    let opts = RunOpts { strict: false, logging: false, known, quiesce_mid: false, timeout_s: 20, persist: replay_out.is_some(), prop: prop.clone(), config: cfg_name.clone() };
    let alpha = g2_alphabet();
    let n = alpha.len();
    let mut acc = Acc::new(&prop);
    let mut failing: Option<(Case, String)> = None;
    let mut sequences = 0u64;
    // odometer over positions 1..depth (position 0 is always the first alphabet entry, New)
    let free = depth.saturating_sub(1);
    let total: u64 = (n as u64).pow(free as u32);
    let mut idx = shard as u64;
    'outer: while idx < total {
        let mut ops = vec![alpha[0].clone()];
        let mut x = idx;
        for _ in 0..free {
            ops.push(alpha[(x % n as u64) as usize].clone());
            x /= n as u64;
        }
        idx += shards as u64;
        sequences += 1;
        let mut plans: Vec<Vec<Fault>> = vec![Vec::new()];
        if with_faults > 0 {
            plans.push(vec![Fault { kind: Kind::TraceEnd, nth: 0 }]);
            plans.push(vec![Fault { kind: Kind::Trace, nth: 1 }]);
        }
        for faults in plans {
            let c = Case { auto: false, ops: ops.clone(), faults };
            acc.evaluations += 1;
            match run_case(&c, &opts) {
                Outcome::Hang => {
                    acc.hangs += 1;
                    acc.hang_case = Some(c.clone());
                    failing = Some((c, "HANG".into()));
                    break 'outer;
                }
                Outcome::Done(r) => {
                    if let Some(v) = acc.absorb(&c, &r) {
                        failing = Some((c, v.sig));
                        break 'outer;
                    }
                }
            }
        }
    }
    let mut code = 0;
    let mut violation = serde_json::Value::Null;
    if let Some((case, sig)) = failing {
        if sig == "HANG" {
            code = 2;
            violation = json!({"hang": true, "case": case});
        } else {
            code = 1;
            acc.frozen = true;
            let small = shrink_g4(case, &opts, &prop);
            let res = match run_case(&small, &RunOpts { logging: true, ..opts.clone() }) {
                Outcome::Done(r) => Some(r),
                Outcome::Hang => None,
            };
            let vio: Vec<_> = res.as_ref().map(|r| r.violations.clone()).unwrap_or_default();
            let sig2 = vio.iter().find(|v| v.props.iter().any(|p| p == &prop)).map(|v| v.sig.clone()).unwrap_or(sig);
            let replay = json!({"property": prop, "engine": "g2", "kind": "heap", "configuration": cfg_name, "case": small, "signature": sig2, "violations": vio,
                "log": res.as_ref().map(|r| r.log.clone()).unwrap_or_default()});
            if let Some(path) = &replay_out {
                let _ = std::fs::write(path, serde_json::to_string_pretty(&replay).unwrap());
            }
            violation = json!({"signature": sig2, "replay": replay_out, "violations": vio});
        }
    }
    if acc.harness_errors > 0 {
        code = 2;
    }
    let complete = code == 0;
    let mut report = acc.report(json!({"engine": "g2", "config": cfg_name, "seed": 0, "violation": violation}));
    report["exhaustive"] = json!({"scope": format!("all {} operation sequences New,a2..a{} over a {}-letter alphabet (shard {}/{}){}", sequences, depth, n, shard, shards, if with_faults > 0 { ", each also with a fault at the first trace exit and at the second trace entry" } else { "" }),
        "complete": complete, "sequences": sequences});
    if let Some(out) = out {
        std::fs::write(&out, serde_json::to_string(&report).unwrap()).expect("write report");
    } else {
        println!("{}", serde_json::to_string_pretty(&report).unwrap());
    }
    code
}

/// G4: crash-point enumerator. For every generated program: fault-free run, then one run per
/// (callback kind, invocation index) with that invocation panicking, then sampled pairs of faults.
fn cmd_g4(args: &[String]) -> i32 {
    use proptest::strategy::{Strategy, ValueTree};
    let prop = arg(args, "--prop").unwrap_or("C07").to_string();
    let profile = gen::profile(arg(args, "--profile").unwrap_or("general"));
    let programs: u32 = arg(args, "--cases").and_then(|s| s.parse().ok()).unwrap_or(100);
    let pairs: u32 = arg(args, "--pairs").and_then(|s| s.parse().ok()).unwrap_or(8);
    let seed: u64 = arg(args, "--seed").and_then(|s| s.parse().ok()).unwrap_or(1);
    let out = arg(args, "--out").map(|s| s.to_string());
    let replay_out = arg(args, "--replay-out").map(|s| s.to_string());
    let cfg_name = arg(args, "--config-name").unwrap_or("?").to_string();
    let known: Vec<String> = arg(args, "--known").map(|s| load_known(s, &prop)).unwrap_or_default();
    if let Some(r) = &replay_out {
        rccv::crash::install(r);
    }
    let opts = RunOpts { strict: false, logging: false, known: known.clone(), quiesce_mid: false, timeout_s: 20, persist: replay_out.is_some(), prop: prop.clone(), config: cfg_name.clone() };
    let mut acc = Acc::new(&prop);
    let seed = hash_seed(&[&prop, &cfg_name, profile.name, "g4"], &[seed]);
    let mut runner = TestRunner::new(Config { cases: programs, failure_persistence: None, rng_algorithm: RngAlgorithm::ChaCha, rng_seed: RngSeed::Fixed(seed), ..Config::default() });
    let strat = gen::case(&profile, 0);
    let mut crash_points = 0u64;
    let mut pair_runs = 0u64;
    let mut fully_enumerated = 0u64;
    let mut failing: Option<(Case, String)> = None;
    // simple deterministic generator for the sampled pairs
    let mut lcg = seed.wrapping_mul(0x9E3779B97F4A7C15) | 1;
    let mut next = |n: u32| -> u32 {
        lcg = lcg.wrapping_mul(6364136223846793005).wrapping_add(1442695040888963407);
        ((lcg >> 33) as u32) % n.max(1)
    };
    'outer: for _ in 0..programs {
        let tree = match strat.new_tree(&mut runner) {
            Ok(t) => t,
            Err(_) => break,
        };
        let (base, _) = tree.current();
        let run = |c: &Case, acc: &mut Acc| -> Result<CaseResult, String> {
            acc.evaluations += 1;
            match run_case(c, &opts) {
                Outcome::Hang => {
                    acc.hangs += 1;
                    acc.hang_case = Some(c.clone());
                    Err("HANG".into())
                }
                Outcome::Done(r) => match acc.absorb(c, &r) {
                    Some(v) => Err(v.sig),
                    None => Ok(r),
                },
            }
        };
        let r0 = match run(&base, &mut acc) {
            Ok(r) => r,
            Err(sig) => {
                failing = Some((base.clone(), sig));
                break 'outer;
            }
        };
        let counts = r0.stats.counts;
        let mut full = true;
        let mut singles: Vec<(Fault, [u32; NKINDS])> = Vec::new();
        for kind in KINDS {
            let n = counts[kind.idx()];
            if n > 64 {
                full = false;
            }
            for k in 0..n.min(64) {
                let f = Fault { kind, nth: k };
                let c = Case { auto: base.auto, ops: base.ops.clone(), faults: vec![f] };
                crash_points += 1;
                match run(&c, &mut acc) {
                    Ok(r) => singles.push((f, r.stats.counts)),
                    Err(sig) => {
                        failing = Some((c, sig));
                        break 'outer;
                    }
                }
            }
        }
        if full {
            fully_enumerated += 1;
        }
        // two successive faults: the second one is placed in the run that already has the first
        for _ in 0..pairs {
            if singles.is_empty() {
                break;
            }
            let (f1, c1) = singles[next(singles.len() as u32) as usize];
            let kind2 = KINDS[next(NKINDS as u32) as usize];
            let n2 = c1[kind2.idx()];
            if n2 == 0 {
                continue;
            }
            let f2 = Fault { kind: kind2, nth: next(n2) };
            if f2 == f1 {
                continue;
            }
            let c = Case { auto: base.auto, ops: base.ops.clone(), faults: vec![f1, f2] };
            pair_runs += 1;
            if let Err(sig) = run(&c, &mut acc) {
                failing = Some((c, sig));
                break 'outer;
            }
        }
    }
    let mut code = 0;
    let mut violation = serde_json::Value::Null;
    if let Some((case, sig)) = failing {
        if sig == "HANG" {
            code = 2;
            violation = json!({"hang": true, "case": case});
        } else {
            code = 1;
            acc.frozen = true;
            // shrink: drop operations while some crash point of the shorter program still fails
            let small = shrink_g4(case, &opts, &prop);
            let res = match run_case(&small, &RunOpts { logging: true, ..opts.clone() }) {
                Outcome::Done(r) => Some(r),
                Outcome::Hang => None,
            };
            let vio: Vec<_> = res.as_ref().map(|r| r.violations.clone()).unwrap_or_default();
            let sig2 = vio.iter().find(|v| v.props.iter().any(|p| p == &prop)).map(|v| v.sig.clone()).unwrap_or(sig);
            let replay = json!({"property": prop, "engine": "g4", "kind": "heap", "configuration": cfg_name, "profile": profile.name, "case": small,
                "signature": sig2, "violations": vio, "log": res.as_ref().map(|r| r.log.clone()).unwrap_or_default()});
            if let Some(path) = &replay_out {
                let _ = std::fs::write(path, serde_json::to_string_pretty(&replay).unwrap());
            }
            violation = json!({"signature": sig2, "replay": replay_out, "violations": vio});
        }
    }
    if acc.harness_errors > 0 {
        code = 2;
    }
    let report = acc.report(json!({"engine": "g4", "profile": profile.name, "config": cfg_name, "seed": seed, "violation": violation,
        "programs": programs, "crash_points_enumerated": crash_points, "fault_pairs": pair_runs, "programs_fully_enumerated": fully_enumerated}));
    if let Some(out) = out {
        std::fs::write(&out, serde_json::to_string(&report).unwrap()).expect("write report");
    } else {
        println!("{}", serde_json::to_string_pretty(&report).unwrap());
    }
    code
}

/// Does the case (with its own fault plan) violate `prop`?
fn fails(case: &Case, opts: &RunOpts, prop: &str) -> bool {
    match run_case(case, opts) {
        Outcome::Hang => false,
        Outcome::Done(r) => r.violations.iter().any(|v| v.props.iter().any(|p| p == prop)),
    }
}

/// Greedy shrinking for G4 failures: remove one operation at a time; a candidate is kept if
/// the same fault plan, or any single crash point of the candidate, still fails.
fn shrink_g4(mut case: Case, opts: &RunOpts, prop: &str) -> Case {
    let mut budget = 4000u32;
    let mut progress = true;
    while progress && budget > 0 {
        progress = false;
        let mut i = case.ops.len();
        while i > 0 && budget > 0 {
            i -= 1;
            let mut cand = case.clone();
            cand.ops.remove(i);
            budget = budget.saturating_sub(1);
            if fails(&cand, opts, prop) {
                case = cand;
                progress = true;
                continue;
            }
            if case.faults.len() == 1 {
                // the fault index may have shifted: look for it among the crash points of `cand`
                let base = Case { auto: cand.auto, ops: cand.ops.clone(), faults: Vec::new() };
                if let Outcome::Done(r0) = run_case(&base, opts) {
                    let kind = case.faults[0].kind;
                    let n = r0.stats.counts[kind.idx()].min(64);
                    for k in 0..n {
                        budget = budget.saturating_sub(1);
                        let c2 = Case { auto: cand.auto, ops: cand.ops.clone(), faults: vec![Fault { kind, nth: k }] };
                        if fails(&c2, opts, prop) {
                            case = c2;
                            progress = true;
                            break;
                        }
                    }
                }
            }
        }
    }
    case
}

fn cmd_simple(args: &[String], engine: &str) -> i32 {
    let prop = arg(args, "--prop").unwrap_or("C15").to_string();
    let cases: u32 = arg(args, "--cases").and_then(|s| s.parse().ok()).unwrap_or(1000);
    let seed: u64 = arg(args, "--seed").and_then(|s| s.parse().ok()).unwrap_or(1);
    let out = arg(args, "--out").map(|s| s.to_string());
    let replay_out = arg(args, "--replay-out");
    let cfg_name = arg(args, "--config-name").unwrap_or("?").to_string();
    let known: Vec<String> = arg(args, "--known").map(|s| load_known(s, &prop)).unwrap_or_default();
    if let Some(r) = replay_out {
        rccv::crash::install(r);
    }
    KIND.with(|k| k.set(match engine { "policy" => "policy", "limits" => "limits", "fwd" => "fwd", "containers" => "containers", "layout" => "layout", "threads" => "threads", "teardown" => "teardown", _ => "heap" }));
    let (code, mut report) = match engine {
        "policy" => {
            let max_ops: usize = arg(args, "--max-ops").and_then(|s| s.parse().ok()).unwrap_or(60);
            drive(&prop, engine, &cfg_name, cases, seed, rccv::policy::strategy(max_ops), &known, replay_out, |c: &rccv::policy::PCase, log| {
                persist(&prop, &cfg_name, c);
                let r = rccv::policy::run_on_thread(c, log);
                let mut classes = Vec::new();
                if r.grew { classes.push("threshold-grew".to_string()); }
                if r.shrank { classes.push("threshold-shrank".to_string()); }
                if r.near_boundary > 0 { classes.push("creation-near-boundary".to_string()); }
                if r.buffered_trigger > 0 { classes.push("triggered-by-buffered-threshold".to_string()); }
                if r.triggered > 0 { classes.push("auto-collection".to_string()); }
                SimpleOut { violations: r.violations, nontrivial: r.nontrivial, hash: c.hash64(), classes }
            })
        }
        "limits" => drive(&prop, engine, &cfg_name, cases, seed, rccv::limits::strategy(), &known, replay_out, |c: &rccv::limits::LCase, log| {
            persist(&prop, &cfg_name, c);
            let r = rccv::limits::run_on_thread(c, log);
            let mut classes = Vec::new();
            if r.hit_strong > 0 { classes.push("hit-strong-limit".to_string()); }
            if r.hit_weak > 0 { classes.push("hit-weak-limit".to_string()); }
            if r.moved_away_and_back { classes.push("left-limit-and-returned".to_string()); }
            SimpleOut { nontrivial: (r.hit_strong > 0 || r.hit_weak > 0) && r.moved_away_and_back || r.hit_strong + r.hit_weak >= 2, violations: r.violations, hash: c.hash64(), classes }
        }),
        "layout" => drive(&prop, engine, &cfg_name, cases, seed, rccv::layout::strategy(), &known, replay_out, |c: &rccv::layout::GCase, log| {
            persist(&prop, &cfg_name, c);
            let r = rccv::layout::run_on_thread(c, log);
            let mut classes = vec![format!("align-{}", rccv::layout::ALIGNS[c.align as usize % 13]), format!("size-{}", rccv::layout::SIZES[c.size as usize % 8])];
            if r.unwrap_ok > 0 { classes.push("unwrap-ok".to_string()); }
            if r.unwrap_err > 0 { classes.push("unwrap-err".to_string()); }
            let nontrivial = match prop.as_str() {
                "C13" => r.unwrap_ok > 0 && r.unwrap_err > 0,
                _ => c.ops.len() >= 3,
            };
            SimpleOut { nontrivial, violations: r.violations, hash: c.hash64(), classes }
        }),
        "fwd" => drive(&prop, engine, &cfg_name, cases, seed, rccv::fwd::strategy(), &known, replay_out, |c: &rccv::fwd::FCase, _log| {
            let r = rccv::fwd::run(c);
            let mut classes = Vec::new();
            if r.incomparable { classes.push("incomparable-pair".to_string()); }
            if r.differ { classes.push("values-differ".to_string()); }
            SimpleOut { nontrivial: r.differ, violations: r.violations, hash: c.hash64(), classes }
        }),
        "containers" => rccv::engine::drive_with_fixed(&prop, engine, &cfg_name, cases, seed, rccv::containers::strategy(), &known, replay_out, &rccv::containers::fixed_grid(arg(args, "--grid-depth").and_then(|s| s.parse().ok()).unwrap_or(3)), |c: &rccv::containers::CCase, log| {
            persist(&prop, &cfg_name, c);
            let r = rccv::containers::run_on_thread(c, log);
            let classes = vec![format!("{:?}", c.shape).split('(').next().unwrap().to_string()];
            SimpleOut { nontrivial: r.cycle_reclaimed, violations: r.violations, hash: c.hash64(), classes }
        }),
        "threads" => drive(&prop, engine, &cfg_name, cases, seed, rccv::threads::strategy(), &known, replay_out, |c: &rccv::threads::TCase, _log| {
            persist(&prop, &cfg_name, c);
            let r = rccv::threads::run(c);
            let mut classes = vec![format!("threads-{}", r.threads)];
            if r.overlapped_collections { classes.push("overlapping-collections".to_string()); }
            SimpleOut { nontrivial: r.overlapped_collections, violations: r.violations, hash: c.hash64(), classes }
        }),
        "teardown" => drive(&prop, engine, &cfg_name, cases, seed, rccv::threads::teardown_strategy(), &known, replay_out, |c: &rccv::threads::DCase, _log| {
            let v = rccv::threads::run_teardown(c);
            let mut classes = Vec::new();
            if c.garbage_cycles > 0 { classes.push("garbage-buffered-at-exit".to_string()); }
            if c.slots.iter().any(|s| s.before_collector && !s.contents.is_empty()) { classes.push("user-tls-outlives-collector".to_string()); }
            if c.slots.iter().any(|s| !s.before_collector && !s.contents.is_empty()) { classes.push("user-tls-destroyed-first".to_string()); }
            let nontrivial = c.garbage_cycles > 0 || c.slots.iter().any(|s| !s.contents.is_empty());
            SimpleOut { nontrivial, violations: v, hash: c.hash64(), classes }
        }),
        _ => (2, json!({})),
    };
    // tag the replay file with its kind so that `replay` can dispatch
    if let Some(r) = replay_out {
        if let Ok(text) = std::fs::read_to_string(r) {
            if let Ok(mut v) = serde_json::from_str::<serde_json::Value>(&text) {
                v["kind"] = json!(engine);
                let _ = std::fs::write(r, serde_json::to_string_pretty(&v).unwrap());
            }
        }
    }
    let _ = &mut report;
    if let Some(out) = out {
        std::fs::write(&out, serde_json::to_string(&report).unwrap()).expect("write report");
    } else {
        println!("{}", serde_json::to_string_pretty(&report).unwrap());
    }
    code
}

thread_local! {
    static KIND: std::cell::Cell<&'static str> = const { std::cell::Cell::new("heap") };
}

fn replay_simple(kind: &str, prop: &str, v: &serde_json::Value, path: &str) -> i32 {
    let vios: Vec<rccv::world::Violation> = match kind {
        "policy" => {
            let c: rccv::policy::PCase = serde_json::from_value(v["case"].clone()).expect("case");
            let r = rccv::policy::run_on_thread(&c, true);
            for l in &r.log {
                println!("{}", l);
            }
            r.violations
        }
        "limits" => {
            let c: rccv::limits::LCase = serde_json::from_value(v["case"].clone()).expect("case");
            let r = rccv::limits::run_on_thread(&c, true);
            for l in &r.log {
                println!("{}", l);
            }
            r.violations
        }
        "layout" => {
            let c: rccv::layout::GCase = serde_json::from_value(v["case"].clone()).expect("case");
            let r = rccv::layout::run_on_thread(&c, true);
            for l in &r.log {
                println!("{}", l);
            }
            r.violations
        }
        "containers" => {
            let c: rccv::containers::CCase = serde_json::from_value(v["case"].clone()).expect("case");
            rccv::containers::run_on_thread(&c, true).violations
        }
        "threads" => {
            let c: rccv::threads::TCase = serde_json::from_value(v["case"].clone()).expect("case");
            rccv::threads::run(&c).violations
        }
        "teardown" => {
            let c: rccv::threads::DCase = serde_json::from_value(v["case"].clone()).expect("case");
            rccv::threads::run_teardown(&c)
        }
        "fwd" => {
            let c: rccv::fwd::FCase = serde_json::from_value(v["case"].clone()).expect("case");
            rccv::fwd::run(&c).violations
        }
        _ => {
            eprintln!("unknown replay kind {}", kind);
            return 2;
        }
    };
    for x in &vios {
        println!("violation props={:?} sig={} :: {}", x.props, x.sig, x.detail);
    }
    if vios.iter().any(|x| x.props.iter().any(|p| p == prop)) {
        println!("VIOLATION property={} replay={}", prop, path);
        1
    } else {
        0
    }
}

fn persist<T: Serialize>(prop: &str, cfg: &str, case: &T) {
    let v = json!({"property": prop, "engine": "crash", "kind": KIND.with(|k| k.get()), "configuration": cfg, "case": case, "signature": "process-killed-by-signal"});
    rccv::crash::set_current(serde_json::to_vec(&v).unwrap());
}

fn cmd_replay(args: &[String]) -> i32 {
    let Some(path) = args.get(2) else {
        eprintln!("usage: rccv replay FILE [--prop P] [--known FILE]");
        return 2;
    };
    let text = std::fs::read_to_string(path).expect("read replay file");
    let v: serde_json::Value = serde_json::from_str(&text).expect("parse replay file");
    let prop = arg(args, "--prop").map(|s| s.to_string()).or_else(|| v["property"].as_str().map(|s| s.to_string())).unwrap_or("C01".into());
    let kind = v["kind"].as_str().unwrap_or("heap").to_string();
    if kind != "heap" && kind != "g1" && kind != "crash" && kind != "g2" && kind != "g4" {
        return replay_simple(&kind, &prop, &v, path);
    }
    let case: Case = serde_json::from_value(v["case"].clone()).expect("case");
    let known: Vec<String> = arg(args, "--known").map(|s| load_known(s, &prop)).unwrap_or_default();
    let opts = RunOpts { strict: true, logging: !args.iter().any(|a| a == "--quiet"), known, quiesce_mid: false, timeout_s: 20, persist: false, prop: prop.clone(), config: String::new() };
    let quiet = args.iter().any(|a| a == "--quiet");
    match run_case(&case, &opts) {
        Outcome::Hang => {
            println!("HANG");
            2
        }
        Outcome::Done(res) => {
            let _ = quiet;
            let mine: Vec<_> = res.violations.iter().filter(|v| v.props.iter().any(|p| p == &prop)).collect();
            for v in &res.violations {
                println!("violation props={:?} sig={} :: {}", v.props, v.sig, v.detail);
            }
            let out = json!({"violations": res.violations, "stats": res.stats});
            if let Some(o) = arg(args, "--out") {
                let _ = std::fs::write(o, serde_json::to_string(&out).unwrap());
            }
            if res.violations.iter().any(|v| v.props.iter().any(|p| p == "HARNESS")) {
                return 2;
            }
            if mine.is_empty() {
                0
            } else {
                println!("VIOLATION property={} replay={}", prop, path);
                1
            }
        }
    }
}

#[derive(Serialize, Deserialize)]
struct Dummy;

#[allow(dead_code)]
fn unused(_: BTreeMap<u8, u8>, _: BTreeSet<u8>, _: CaseResult) {
    let _ = std::io::stdout().flush();
}
