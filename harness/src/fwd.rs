//! C20 (trait half): Eq, Ord, PartialOrd, Hash, Debug, Display, Default on `Cc<T>` behave
//! exactly as on `T`, for generated pairs of values (including incomparable floats).

use std::cmp::Ordering;
use std::collections::hash_map::DefaultHasher;
use std::fmt::{Debug, Display};
use std::hash::{Hash, Hasher};

use proptest::prelude::*;
use serde::{Deserialize, Serialize};

use rust_cc::{Cc, Trace};

use crate::world::Violation;

#[derive(Clone, Debug, PartialEq, Serialize, Deserialize)]
pub enum FCase {
    I32(i32, i32),
    U8(u8, u8),
    F64(u64, u64),
    Str(String, String),
    Pair((i32, String), (i32, String)),
    Opt(Option<i64>, Option<i64>),
    F32(u32, u32),
}

impl FCase {
    pub fn hash64(&self) -> u64 {
        let mut h = crate::case::Fnv(0xcbf29ce484222325);
        let s = serde_json::to_string(self).unwrap();
        h.write(s.as_bytes());
        h.finish()
    }
}

fn f64_bits() -> impl Strategy<Value = u64> {
    prop_oneof![
        4 => any::<f64>().prop_map(|f| f.to_bits()),
        1 => Just(f64::NAN.to_bits()),
        1 => Just(0.0f64.to_bits()),
        1 => Just((-0.0f64).to_bits()),
        1 => Just(f64::INFINITY.to_bits()),
        1 => Just(f64::NEG_INFINITY.to_bits()),
        2 => (-3i32..4).prop_map(|i| (i as f64).to_bits()),
    ]
}

fn f32_bits() -> impl Strategy<Value = u32> {
    prop_oneof![
        4 => any::<f32>().prop_map(|f| f.to_bits()),
        1 => Just(f32::NAN.to_bits()),
        1 => Just(0.0f32.to_bits()),
        1 => Just((-0.0f32).to_bits()),
        2 => (-3i32..4).prop_map(|i| (i as f32).to_bits()),
    ]
}

fn small_i32() -> impl Strategy<Value = i32> {
    prop_oneof![3 => -4i32..5, 2 => any::<i32>(), 1 => Just(i32::MIN), 1 => Just(i32::MAX)]
}

pub fn strategy() -> BoxedStrategy<FCase> {
    prop_oneof![
        3 => (small_i32(), small_i32()).prop_map(|(a, b)| FCase::I32(a, b)),
        1 => (any::<u8>(), any::<u8>()).prop_map(|(a, b)| FCase::U8(a, b)),
        4 => (f64_bits(), f64_bits()).prop_map(|(a, b)| FCase::F64(a, b)),
        2 => (f32_bits(), f32_bits()).prop_map(|(a, b)| FCase::F32(a, b)),
        3 => ("[a-c]{0,3}", "[a-c]{0,3}").prop_map(|(a, b)| FCase::Str(a, b)),
        2 => ((-2i32..3, "[ab]{0,2}"), (-2i32..3, "[ab]{0,2}")).prop_map(|(a, b)| FCase::Pair(a, b)),
        2 => (prop::option::of(-3i64..4), prop::option::of(-3i64..4)).prop_map(|(a, b)| FCase::Opt(a, b)),
    ]
    .boxed()
}

/// A second hasher with a different algorithm (the forwarding must not depend on SipHash).
struct Fnv64(u64);
impl Hasher for Fnv64 {
    fn finish(&self) -> u64 {
        self.0
    }
    fn write(&mut self, bytes: &[u8]) {
        for b in bytes {
            self.0 = (self.0 ^ *b as u64).wrapping_mul(0x100000001b3);
        }
    }
}

fn h1<T: Hash + ?Sized>(t: &T) -> u64 {
    let mut h = DefaultHasher::new();
    t.hash(&mut h);
    h.finish()
}
fn h2<T: Hash + ?Sized>(t: &T) -> u64 {
    let mut h = Fnv64(0xcbf29ce484222325);
    t.hash(&mut h);
    h.finish()
}

#[derive(Default)]
pub struct FResult {
    pub violations: Vec<Violation>,
    pub incomparable: bool,
    pub differ: bool,
}

fn vio(r: &mut FResult, sig: &str, detail: String) {
    if r.violations.len() < 16 {
        r.violations.push(Violation { props: vec!["C20".into()], rule: sig.into(), sig: sig.into(), detail, op: -1, hard: false });
    }
}

fn partial<T: Trace + PartialEq + PartialOrd + Debug + Clone + 'static>(r: &mut FResult, x: &T, y: &T) {
    let (cx, cy) = (Cc::new(x.clone()), Cc::new(y.clone()));
    macro_rules! same {
        ($name:literal, $a:expr, $b:expr) => {
            let (va, vb) = (($a), ($b));
            if va != vb {
                vio(r, concat!("forwarding/", $name), format!("{} on Cc gives {:?}, on T {:?} for ({:?}, {:?})", $name, va, vb, x, y));
            }
        };
    }
    same!("eq", cx == cy, x == y);
    same!("ne", cx != cy, x != y);
    same!("partial_cmp", cx.partial_cmp(&cy), x.partial_cmp(y));
    same!("lt", cx < cy, x < y);
    same!("le", cx <= cy, x <= y);
    same!("gt", cx > cy, x > y);
    same!("ge", cx >= cy, x >= y);
    same!("eq-self", cx == cx.clone(), x == x);
    same!("debug", format!("{:?}", cx), format!("{:?}", x));
    debug_specs(r, x);
    debug_specs(r, y);
    if x.partial_cmp(y).is_none() {
        r.incomparable = true;
    }
    if x != y {
        r.differ = true;
    }
}

fn total<T: Trace + Ord + Hash + Debug + Clone + 'static>(r: &mut FResult, x: &T, y: &T) {
    let (cx, cy) = (Cc::new(x.clone()), Cc::new(y.clone()));
    if cx.cmp(&cy) != x.cmp(y) {
        vio(r, "forwarding/cmp", format!("cmp on Cc gives {:?}, on T {:?} for ({:?}, {:?})", cx.cmp(&cy), x.cmp(y), x, y));
    }
    if std::cmp::max(cx.clone(), cy.clone()) != std::cmp::max(Cc::new(x.clone()), Cc::new(y.clone())) {
        vio(r, "forwarding/max", "max differs".into());
    }
    if h1(&cx) != h1(x) || h1(&cy) != h1(y) {
        vio(r, "forwarding/hash-sip", format!("SipHash of Cc differs from that of T for {:?}", x));
    }
    if h2(&cx) != h2(x) || h2(&cy) != h2(y) {
        vio(r, "forwarding/hash-fnv", format!("FNV hash of Cc differs from that of T for {:?}", x));
    }
    let o = cx.cmp(&cy);
    if (o == Ordering::Equal) != (cx == cy) {
        vio(r, "forwarding/eq-cmp-consistency", "cmp and eq disagree on Cc".into());
    }
}

macro_rules! same_fmt {
    ($r:expr, $sig:literal, $cx:expr, $x:expr, $($spec:literal),+ $(,)?) => {
        $(
            let (a, b) = (format!($spec, $cx), format!($spec, $x));
            if a != b {
                vio($r, $sig, format!("format!({:?}, cc) gives {:?}, on T {:?}", $spec, a, b));
            }
        )+
    };
}

/// A payload whose `Display`/`Debug` print the formatter's options: any option that is not
/// forwarded by `Cc`'s impl shows up as a difference.
#[derive(Clone)]
pub struct FmtSpy(pub i32);
unsafe impl Trace for FmtSpy {
    fn trace(&self, _: &mut rust_cc::Context<'_>) {}
}
impl rust_cc::Finalize for FmtSpy {}
fn spy(f: &mut std::fmt::Formatter<'_>, tag: &str, v: i32) -> std::fmt::Result {
    let align = match f.align() {
        None => "none",
        Some(std::fmt::Alignment::Left) => "left",
        Some(std::fmt::Alignment::Right) => "right",
        Some(std::fmt::Alignment::Center) => "center",
    };
    let (w, p, fill, alt, plus, minus, zero) = (f.width(), f.precision(), f.fill(), f.alternate(), f.sign_plus(), f.sign_minus(), f.sign_aware_zero_pad());
    write!(f, "{}[{} w={:?} p={:?} fill={:?} align={} alt={} plus={} minus={} zero={}]", tag, v, w, p, fill, align, alt, plus, minus, zero)
}
impl Display for FmtSpy {
    fn fmt(&self, f: &mut std::fmt::Formatter<'_>) -> std::fmt::Result {
        spy(f, "display", self.0)
    }
}
impl Debug for FmtSpy {
    fn fmt(&self, f: &mut std::fmt::Formatter<'_>) -> std::fmt::Result {
        spy(f, "debug", self.0)
    }
}

fn display<T: Trace + Display + Clone + 'static>(r: &mut FResult, x: &T) {
    let cx = Cc::new(x.clone());
    same_fmt!(r, "forwarding/display", cx, x, "{}", "{:>8}", "{:<6}", "{:^9}", "{:*^11}", "{:+}", "{:#}", "{:08}", "{:.2}", "{:10.3}", "{:+012.4}", "{:-<7.1}");
}

fn debug_specs<T: Trace + Debug + Clone + 'static>(r: &mut FResult, x: &T) {
    let cx = Cc::new(x.clone());
    same_fmt!(r, "forwarding/debug", cx, x, "{:?}", "{:#?}", "{:12?}", "{:<12?}", "{:+?}", "{:.1?}", "{:#x?}", "{:#X?}", "{:_^20?}", "{:08.3?}");
}

fn default<T: Trace + Default + PartialEq + Debug + 'static>(r: &mut FResult) {
    let c: Cc<T> = Cc::default();
    if *c != T::default() {
        vio(r, "forwarding/default", format!("Cc::<T>::default() derefs to {:?}, T::default() is {:?}", &*c, T::default()));
    }
    if c.strong_count() != 1 {
        vio(r, "forwarding/default-count", "Cc::default() has strong count != 1".into());
    }
}

pub fn run(case: &FCase) -> FResult {
    let mut r = FResult::default();
    #[cfg(feature = "auto-collect")]
    let _ = rust_cc::config::config(|c| c.set_auto_collect(false));
    match case {
        FCase::I32(a, b) => {
            partial(&mut r, a, b);
            total(&mut r, a, b);
            display(&mut r, a);
            display(&mut r, b);
            display(&mut r, &FmtSpy(*a));
            debug_specs(&mut r, &FmtSpy(*b));
            default::<i32>(&mut r);
        }
        FCase::U8(a, b) => {
            partial(&mut r, a, b);
            total(&mut r, a, b);
            display(&mut r, b);
            default::<u8>(&mut r);
        }
        FCase::F64(a, b) => {
            let (a, b) = (f64::from_bits(*a), f64::from_bits(*b));
            partial(&mut r, &a, &b);
            display(&mut r, &a);
            default::<f64>(&mut r);
        }
        FCase::F32(a, b) => {
            let (a, b) = (f32::from_bits(*a), f32::from_bits(*b));
            partial(&mut r, &a, &b);
            display(&mut r, &b);
            default::<f32>(&mut r);
        }
        FCase::Str(a, b) => {
            partial(&mut r, a, b);
            total(&mut r, a, b);
            display(&mut r, a);
            default::<String>(&mut r);
        }
        FCase::Pair(a, b) => {
            partial(&mut r, a, b);
            total(&mut r, a, b);
            default::<(i32, String)>(&mut r);
        }
        FCase::Opt(a, b) => {
            partial(&mut r, a, b);
            total(&mut r, a, b);
            default::<Option<i64>>(&mut r);
        }
    }
    r
}
