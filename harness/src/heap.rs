//! Interpreter of heap programs: top-level operations and callback scripts.

use std::panic::{catch_unwind, AssertUnwindSafe};

use rust_cc::{state, verif, Cc};
#[cfg(feature = "weak-ptrs")]
use rust_cc::weak::Weak;

use crate::alloc::{self, Bracket};
use crate::case::*;
use crate::world::*;

#[inline]
fn node_of(payload: usize) -> &'static Node {
    unsafe { &*(payload as *const Node) }
}

fn push_handle(w: &mut World, oid: Oid, cc: Cc<Node>) -> usize {
    let born = w.ev;
    w.handles.push(Some(HandleE { oid, cc, born }));
    w.handles.len() - 1
}

/// (index, oid, payload address) of the handle selected by `sel`.
fn sel_handle(sel: Sel) -> Option<(usize, Oid, usize)> {
    w(|w| {
        let i = World::pick(&w.handles, sel)?;
        let oid = w.handles[i].as_ref().unwrap().oid;
        Some((i, oid, w.objs[oid as usize].payload))
    })
}

fn take_handle(i: usize) -> (Oid, Cc<Node>) {
    w(|w| {
        let h = w.handles[i].take().unwrap();
        (h.oid, h.cc)
    })
}

// ---------------------------------------------------------------------------------------
// shared primitives

pub fn do_new(spec: &Spec) {
    if let Some((oid, cc)) = prim_new(spec.clone()) {
        w(|w| {
            push_handle(w, oid, cc);
        });
    }
}

/// Stores `cc` (pointing to `target`) into slot `s` of object `owner`, dropping the old content.
pub fn store_into_slot(owner: Oid, owner_payload: usize, s: usize, cc: Cc<Node>, target: Oid) {
    let n = node_of(owner_payload);
    let Ok(mut b) = n.slot(s).try_borrow_mut() else {
        // slot is borrowed: give the pointer back to the program
        w(|w| {
            push_handle(w, target, cc);
        });
        return;
    };
    let old = b.replace(cc);
    drop(b);
    let old_t = w(|w| {
        let born = w.ev;
        let old_t = w.objs[owner as usize].slots[s].map(|e| e.to);
        w.objs[owner as usize].slots[s] = Some(Edge { to: target, born });
        w.note(|| format!("obj{}.slot{} = obj{} (was {:?})", owner, s, target, old_t));
        old_t
    });
    if let Some(old) = old {
        prim_drop(old, old_t.expect("shadow slot empty but actual slot full"));
    }
}

pub fn take_from_slot(owner: Oid, owner_payload: usize, s: usize) -> Option<(Oid, Cc<Node>)> {
    let n = node_of(owner_payload);
    let Ok(mut b) = n.slot(s).try_borrow_mut() else { return None };
    let old = b.take();
    drop(b);
    let old = old?;
    let t = w(|w| {
        let t = w.objs[owner as usize].slots[s].take().map(|e| e.to);
        w.note(|| format!("take obj{}.slot{} -> {:?}", owner, s, t));
        t
    });
    Some((t.expect("shadow slot empty but actual slot full"), old))
}

/// `cc.clone()` with shadow bookkeeping left to the caller (who stores the result at once).
pub fn prim_clone(cc: &Cc<Node>) -> Cc<Node> {
    let c = {
        let _b = Bracket::open();
        cc.clone()
    };
    // C11 model: cloning un-buffers
    let id = unsafe { &*payload_of(cc) }.id;
    buf_leave(id);
    c
}

#[cfg(feature = "weak-ptrs")]
fn classify_upgrade_ctx(w: &World) -> (Fk, bool) {
    // innermost frame kind; is there a plain (non-collector-batch) Drop frame below?
    let ctx = w.frames.last().map(|f| f.kind).unwrap_or(Fk::Closure);
    let plain_drop_below = w.frames.iter().any(|f| f.kind == Fk::Drop && !f.in_batch);
    (ctx, plain_drop_below)
}

/// `Weak::upgrade` with the three-valued expectation of C08. Returns the new pointer (the
/// caller stores it as a program handle).
#[cfg(feature = "weak-ptrs")]
pub fn prim_upgrade(wk: &Weak<Node>, target: Option<Oid>, top_level: bool) -> Option<Cc<Node>> {
    let pre = w(|w| {
        target.map(|t| {
            let o = &w.objs[t as usize];
            let box_live = o.box_addr != 0 && alloc::block_at(o.box_addr).map_or(false, |b| b.live) && o.in_box;
            let snap = if box_live { Some(unsafe { verif::object_snapshot_at(o.box_addr) }) } else { None };
            // A callback that runs while an injected panic is still unwinding (drop glue of the unwound
            // frames) sees the state the caught panic will leave: an object that is not reachable from
            // the program's handles may already belong to an abandoned destruction batch, exactly like
            // the objects tainted when the panic is caught (C08 leaves that answer open).
            let tainted = o.tainted || (w.panicked_this_call && std::thread::panicking() && !w.reach(None).contains(&t));
            (o.dropped, o.moved_out, o.uninit || o.never_init, o.in_box, w.shadow_strong(t), tainted, snap)
        })
    });
    let flags = verif::state_flags().unwrap_or((false, false, false));
    // C09: Weak::strong_count() of a live value is the number of its Ccs, wherever it is asked
    let sc_pre = {
        let _b = Bracket::open();
        wk.strong_count()
    };
    let res = {
        let _b = Bracket::open();
        wk.upgrade()
    };
    w(|w| {
        let (ctx, plain_below) = classify_upgrade_ctx(w);
        if !top_level && flags.0 && matches!(ctx, Fk::Drop | Fk::Action) {
            w.flags.c08_batch = true;
        }
        if !top_level {
            match ctx {
                Fk::Drop => w.stats.upgrades_in_destructor += 1,
                Fk::Action => w.stats.upgrades_in_action += 1,
                Fk::Finalize => w.stats.upgrades_in_finalizer += 1,
                _ => {}
            }
        }
        match (&res, target, pre) {
            (Some(_), None, _) => {
                w.violation(&["C08"], "upgrade-of-weak-new", "upgrade-some/weak-new".into(), "Weak::new() upgraded".into(), false);
            }
            (Some(cc), Some(t), Some((dropped, moved, uninit, in_box, _strong, _tainted, _))) => {
                w.stats.upgrades_some += 1;
                w.objs[t as usize].upgraded_call = w.call;
                buf_leave(t);
                let snap = verif::object_snapshot(cc);
                let o = &w.objs[t as usize];
                if dropped || moved || uninit || !in_box {
                    let why = if dropped { "dropped" } else if moved { "moved-out" } else if uninit { "uninitialised" } else { "gone" };
                    let sig = format!("upgrade-some-on-dead/{}/{}", why, fk_str(ctx, top_level));
                    let d = format!("upgrade returned Some for {} obj{}", why, t);
                    if moved {
                        w.violation(&["C08", "C13", "C01"], "upgrade-some-on-dead", sig, d, false);
                    } else if uninit {
                        // the never-initialised target of a new_cyclic call (closure running or panicked)
                        w.violation(&["C08", "C14", "C01"], "upgrade-some-on-dead", sig, d, false);
                    } else {
                        w.violation(&["C08", "C01"], "upgrade-some-on-dead", sig, d, false);
                    }
                } else if snap.box_addr != o.box_addr {
                    w.violation(&["C08"], "upgrade-wrong-allocation", "upgrade-wrong-allocation".into(), format!("upgrade of weak to obj{} returned another allocation", t), false);
                }
                if w.objs[t as usize].fin_count > 0 && !w.objs[t as usize].dropped {
                    // a finalized object made reachable again
                    if !w.objs[t as usize].resurrected && w.shadow_strong_no_inflight(t) == 0 {
                        w.objs[t as usize].resurrected = true;
                        w.stats.resurrections += 1;
                    }
                }
            }
            (None, Some(t), Some((dropped, moved, uninit, in_box, strong, tainted, snap))) => {
                w.stats.upgrades_none += 1;
                let alive = !dropped && !moved && !uninit && in_box;
                if alive && strong >= 1 && !tainted {
                    let mark = snap.map(|s| s.mark()).unwrap_or(9);
                    let sig = format!(
                        "upgrade-none-on-live/{}/target-mark={}/flags={}{}{}/plain-drop-below={}",
                        fk_str(ctx, top_level), mark, flags.0 as u8, flags.1 as u8, flags.2 as u8, plain_below as u8
                    );
                    // Is the collector (or Cc::drop) running destructors of a batch right now? Then a
                    // target sitting in a collector list is itself being destroyed: None is right,
                    // provided its own destructor does follow (resolved at the end of the call).
                    let in_dealloc_batch = w.frames.iter().any(|f| match f.kind {
                        Fk::Drop => f.in_batch,
                        Fk::Action => {
                            let o = &w.objs[f.oid as usize];
                            o.dropped && o.drop_in_collector
                        }
                        _ => false,
                    });
                    let sig = if !top_level && !in_dealloc_batch && mark >= 2 && flags.2 {
                        // the KF1 class (DESIGN.md section 4): the `dropping` flag stems from a plain
                        // Cc::drop, the target merely sits in a list of a collection that is not
                        // deallocating
                        "upgrade-none-on-live/target-in-collector-list/dropping-flag-not-from-deallocation".to_string()
                    } else {
                        sig
                    };
                    if !top_level && in_dealloc_batch && mark >= 2 {
                        let (call, ev) = (w.call, w.ev);
                        w.attempts.push(Attempt { target: t, ctx, sig, call, ev });
                    } else {
                        // nothing can excuse this one (known findings are classified by signature)
                        let d = format!("upgrade returned None for live obj{} (shadow strong {}, Weak::strong_count() {})", t, strong, sc_pre);
                        let kf1 = sig.starts_with("upgrade-none-on-live/target-in-collector-list/");
                        if sc_pre == 0 && !kf1 {
                            w.violation(&["C08", "C09"], "upgrade-none-on-live", sig, d, false);
                        } else {
                            w.violation(&["C08"], "upgrade-none-on-live", sig, d, false);
                        }
                    }
                }
            }
            _ => {}
        }
        w.note(|| format!("upgrade weak->{:?} = {}", target, if res.is_some() { "Some" } else { "None" }));
    });
    res
}

#[cfg(feature = "weak-ptrs")]
fn fk_str(k: Fk, top: bool) -> &'static str {
    if top {
        return "top";
    }
    match k {
        Fk::Trace => "trace",
        Fk::Finalize => "finalize",
        Fk::Drop => "drop",
        Fk::Action => "action",
        Fk::Closure => "closure",
    }
}

/// Upgrade attempted from inside a callback; a `Some` result becomes a program handle.
#[cfg(feature = "weak-ptrs")]
pub fn upgrade_in_callback(wk: &Weak<Node>, target: Option<Oid>) {
    if let Some(cc) = prim_upgrade(wk, target, false) {
        keep_or_forget(target, cc);
    }
}

/// Keeps an upgraded pointer as a program handle, unless the upgrade was itself a violation
/// (pointer to a dead object): then it is forgotten so that nothing touches it again.
#[cfg(feature = "weak-ptrs")]
fn keep_or_forget(target: Option<Oid>, cc: Cc<Node>) {
    let ok = w(|w| match target {
        Some(t) => {
            let o = &w.objs[t as usize];
            !o.dropped && !o.moved_out && !o.uninit && !o.never_init && o.in_box
        }
        None => false,
    });
    if ok {
        w(|w| {
            if !w.frames.is_empty() {
                w.ptr_ops_in_callbacks = true;
            }
            push_handle(w, target.unwrap(), cc);
        });
    } else {
        std::mem::forget(cc);
    }
}

// ---------------------------------------------------------------------------------------
// finalizer scripts

pub fn run_fin_op(me: &Node, op: &FinOp) {
    let my = me.id;
    if matches!(op, FinOp::UpgradeOwnWeak(_) | FinOp::StashSlot(_) | FinOp::StashNeighbourSlot(..) | FinOp::StoreSlotInto(..) | FinOp::UpgradeHandle(_) | FinOp::UpgradeOwnWeakInto(..)) {
        // a finalizer is about to make something reachable again (C06: this must be safe)
        w(|w| w.fin_res_op_call = w.call);
    }
    match op {
        FinOp::UpgradeOwnWeak(ws) => {
            #[cfg(feature = "weak-ptrs")]
            {
                let ws = (*ws as usize) % 2;
                let b = me.weaks[ws].borrow();
                if let Some(wk) = b.as_ref() {
                    let target = w(|w| w.objs[my as usize].wslots[ws]).flatten();
                    let t2 = w(|w| w.objs[my as usize].wslots[ws]);
                    if let Some(t2) = t2 {
                        let _ = target;
                        if let Some(cc) = prim_upgrade(wk, t2, false) {
                            keep_or_forget(t2, cc);
                        }
                    }
                }
            }
            #[cfg(not(feature = "weak-ptrs"))]
            let _ = ws;
        }
        FinOp::StashSlot(s) => {
            let s = (*s as usize) % NSLOTS;
            let Ok(b) = me.slot(s).try_borrow() else { return };
            if let Some(cc) = b.as_ref() {
                let t = w(|w| w.objs[my as usize].slots[s].map(|e| e.to));
                let c = prim_clone(cc);
                w(|w| {
                    let t = t.expect("shadow slot empty");
                    note_resurrection(w, t);
                    push_handle(w, t, c);
                });
            }
        }
        FinOp::StashNeighbourSlot(s1, s2) => {
            let (s1, s2) = ((*s1 as usize) % NSLOTS, (*s2 as usize) % NSLOTS);
            let Ok(b) = me.slot(s1).try_borrow() else { return };
            if let Some(cc1) = b.as_ref() {
                let t1 = w(|w| w.objs[my as usize].slots[s1].map(|e| e.to)).expect("shadow slot empty");
                let n1: &Node = unsafe { &*payload_of(cc1) };
                let Ok(b2) = n1.slot(s2).try_borrow() else { return };
                if let Some(cc2) = b2.as_ref() {
                    let t2 = w(|w| w.objs[t1 as usize].slots[s2].map(|e| e.to)).expect("shadow slot empty");
                    let c = prim_clone(cc2);
                    w(|w| {
                        note_resurrection(w, t2);
                        push_handle(w, t2, c);
                    });
                }
            }
        }
        FinOp::StoreSlotInto(s, h, s2) => {
            let (s, s2) = ((*s as usize) % NSLOTS, (*s2 as usize) % NSLOTS);
            let Some((_, hoid, hpayload)) = sel_handle(*h) else { return };
            let c = {
                let Ok(b) = me.slot(s).try_borrow() else { return };
                let Some(cc) = b.as_ref() else { return };
                prim_clone(cc)
            };
            let t = w(|w| {
                let t = w.objs[my as usize].slots[s].map(|e| e.to).expect("shadow slot empty");
                note_resurrection(w, t);
                t
            });
            store_into_slot(hoid, hpayload, s2, c, t);
        }
        FinOp::UpgradeOwnWeakInto(ws, s) => {
            #[cfg(feature = "weak-ptrs")]
            {
                let (ws, s) = ((*ws as usize) % 2, (*s as usize) % NSLOTS);
                let got = {
                    let b = me.weaks[ws].borrow();
                    match (b.as_ref(), w(|w| w.objs[my as usize].wslots[ws])) {
                        (Some(wk), Some(t2)) => prim_upgrade(wk, t2, false).map(|cc| (t2, cc)),
                        _ => None,
                    }
                };
                if let Some((t2, cc)) = got {
                    let ok = w(|w| match t2 {
                        Some(t) => {
                            let o = &w.objs[t as usize];
                            !o.dropped && !o.moved_out && !o.uninit && !o.never_init && o.in_box
                        }
                        None => false,
                    });
                    if ok {
                        w(|w| {
                            w.ptr_ops_in_callbacks = true;
                            note_resurrection(w, t2.unwrap());
                        });
                        store_into_slot(my, me as *const Node as usize, s, cc, t2.unwrap());
                    } else {
                        std::mem::forget(cc);
                    }
                }
            }
            #[cfg(not(feature = "weak-ptrs"))]
            let _ = (ws, s);
        }
        FinOp::DropSlot(s) => {
            let s = (*s as usize) % NSLOTS;
            let payload = me as *const Node as usize;
            if let Some((t, cc)) = take_from_slot(my, payload, s) {
                prim_drop(cc, t);
            }
        }
        FinOp::AllocDrop => {
            if let Some((oid, cc)) = prim_new(Spec::default()) {
                prim_drop(cc, oid);
            }
        }
        FinOp::AllocStash => {
            do_new(&Spec::default());
        }
        FinOp::AllocCycleDrop => {
            let Some((a, ca)) = prim_new(Spec::default()) else { return };
            w(|w| {
                push_handle(w, a, ca);
            });
            let Some((b, cb)) = prim_new(Spec::default()) else { return };
            // a is the last handle pushed by us unless callbacks pushed more: find by oid
            let pa = w(|w| w.objs[a as usize].payload);
            let pb = w(|w| w.objs[b as usize].payload);
            let ia = w(|w| w.handles.iter().position(|h| h.as_ref().map_or(false, |h| h.oid == a)));
            let Some(ia) = ia else {
                prim_drop(cb, b);
                return;
            };
            let ca2 = w(|w| prim_clone(&w.handles[ia].as_ref().unwrap().cc));
            let cb2 = prim_clone(&cb);
            store_into_slot(b, pb, 0, ca2, a);
            store_into_slot(a, pa, 0, cb2, b);
            prim_drop(cb, b);
            let still = w(|w| w.handles.get(ia).and_then(|h| h.as_ref()).map_or(false, |h| h.oid == a));
            if still {
                let (oa, ca) = take_handle(ia);
                prim_drop(ca, oa);
            }
        }
        FinOp::UpgradeHandle(sel) => {
            #[cfg(feature = "weak-ptrs")]
            do_upgrade(*sel, false);
            #[cfg(not(feature = "weak-ptrs"))]
            let _ = sel;
        }
        FinOp::DropHandle(sel) => {
            if let Some((i, _, _)) = sel_handle(*sel) {
                if w(|w| w.pinned.contains(&i)) {
                    return; // borrowed by the API call that is running this callback
                }
                let (oid, cc) = take_handle(i);
                prim_drop(cc, oid);
            }
        }
        FinOp::Collect => prim_collect(),
        FinOp::TryUnwrap(sel) => {
            do_try_unwrap(*sel, false);
        }
        FinOp::FinalizeAgain(sel) => {
            do_finalize_again(*sel, false);
        }
        FinOp::NewCyclic => {
            #[cfg(feature = "weak-ptrs")]
            do_new_cyclic(&Spec::default(), &[CloOp::StoreWeakSelf(0)]);
        }
    }
}

/// A callback acquired a new pointer to `t`: if `t` had been finalized and had no program
/// pointer, this is a resurrection.
fn note_resurrection(w: &mut World, t: Oid) {
    let o = &w.objs[t as usize];
    if o.fin_count > 0 && !o.dropped && !o.resurrected {
        let reach = w.reach(None);
        if !reach.contains(&t) {
            w.objs[t as usize].resurrected = true;
            w.stats.resurrections += 1;
            w.note(|| format!("resurrection of obj{}", t));
        }
    }
}

// ---------------------------------------------------------------------------------------
// operations shared by top level and scripts

#[cfg(feature = "weak-ptrs")]
pub fn do_upgrade(sel: Sel, top: bool) {
    let got = w(|w| {
        let i = World::pick(&w.weaks, sel)?;
        let e = w.weaks[i].as_ref().unwrap();
        Some((&e.w as *const Weak<Node>, e.target))
    });
    let Some((wp, target)) = got else { return };
    // the weak handle table is only changed by top-level operations and by closures that push
    // (never by removal inside callbacks), so the entry outlives this call; Vec growth could
    // move it, therefore clone the weak first
    let wk = {
        let _b = Bracket::open();
        unsafe { &*wp }.clone()
    };
    w(|w| {
        if let Some(t) = target {
            *w.extra_weak.entry(t).or_insert(0) += 1;
        }
    });
    let res = prim_upgrade(&wk, target, top);
    {
        let _b = Bracket::open();
        drop(wk);
    }
    w(|w| {
        if let Some(t) = target {
            let n = w.extra_weak.get_mut(&t).unwrap();
            *n -= 1;
            if *n == 0 {
                w.extra_weak.remove(&t);
            }
        }
    });
    if let Some(cc) = res {
        keep_or_forget(target, cc);
    }
}

/// `try_unwrap` on a program handle. Inside finalizers/destructors/collector callbacks it must
/// return `Err` (C12); at top level `Ok` iff unique (C13).
pub fn do_try_unwrap(sel: Sel, top: bool) {
    let Some((i, oid, _)) = sel_handle(sel) else { return };
    if w(|w| w.pinned.contains(&i)) {
        return; // borrowed by the API call that is running this callback
    }
    let (oid2, cc) = take_handle(i);
    debug_assert_eq!(oid, oid2);
    let pre = w(|w| {
        let o = &w.objs[oid as usize];
        (w.shadow_strong(oid) + 1, o.box_addr, o.tainted, w.shadow_weak(oid), o.slack)
    });
    let snap_pre = verif::object_snapshot(&cc);
    let buffered_pre = state::buffered_objects_count().unwrap_or(0);
    let ev0 = w(|w| w.ev);
    let res = {
        let _b = Bracket::open();
        cc.try_unwrap()
    };
    match res {
        Ok(node) => {
            let node = Box::new(node);
            w(|w| {
                w.stats.unwrap_ok += 1;
                buf_leave(oid);
                if w.objs[oid as usize].lost_ptr || pre.3 > 0 {
                    w.flags.c13_ok_hist = true;
                }
                let restricted = !top && w.restricted();
                if restricted {
                    let sig = format!("try-unwrap-ok-in-callback/{}", stack_sig_pub(w));
                    w.violation(&["C12"], "try-unwrap-in-callback", sig, format!("try_unwrap returned Ok for obj{} inside a finalizer/destructor", oid), false);
                }
                if pre.0 != 1 && !pre.2 {
                    w.violation(&["C13", "C04"], "try-unwrap-ok-not-unique", "try-unwrap-ok-not-unique".into(), format!("try_unwrap returned Ok for obj{} with {} pointers", oid, pre.0), false);
                }
                if w.ev != ev0 {
                    w.violation(&["C13"], "try-unwrap-ran-callbacks", "try-unwrap-ran-callbacks".into(), format!("try_unwrap of obj{} ran {} callbacks", oid, w.ev - ev0), false);
                }
                let c = node.canary.get();
                if c != LIVE || node.id != oid {
                    w.violation(&["C13"], "try-unwrap-value-changed", "try-unwrap-value-changed".into(), format!("value moved out of obj{} is damaged (canary {:#x}, id {})", oid, c, node.id), false);
                }
                // box released with its layout
                if alloc::block_at(pre.1).map_or(false, |b| b.live) {
                    w.violation(&["C13", "C03"], "try-unwrap-box-not-released", "try-unwrap-box-not-released".into(), format!("allocation of obj{} still live after try_unwrap returned Ok", oid), false);
                }
                // left the buffer
                if let Some(buf) = verif::buffer_snapshot(4096) {
                    if buf.entries.iter().any(|e| e.box_addr == pre.1) {
                        w.violation(&["C13", "C11"], "try-unwrap-still-buffered", "try-unwrap-still-buffered".into(), format!("released allocation of obj{} still in the buffer", oid), false);
                    }
                }
                let o = &mut w.objs[oid as usize];
                o.in_box = false;
                o.moved_out = true;
                o.loose = true;
                o.payload = &*node as *const Node as usize;
                w.note(|| format!("try_unwrap obj{} = Ok", oid));
                w.looses.push(Some(LooseE { oid, node }));
            });
        }
        Err(cc) => {
            let snap_post = verif::object_snapshot(&cc);
            let buffered_post = state::buffered_objects_count().unwrap_or(0);
            w(|w| {
                w.stats.unwrap_err += 1;
                let restricted = !top && w.restricted();
                // an object whose Cc::drop was unwound by a caught panic may keep a count that is too
                // high (C04 allows the leak): the statement of C13 is in terms of strong_count()
                let unique = if pre.4 { snap_pre.strong() == 1 } else { pre.0 == 1 };
                if !restricted && unique && !pre.2 {
                    let sig = format!("try-unwrap-err-unique/{}", stack_sig_pub(w));
                    w.violation(&["C13"], "try-unwrap-err-unique", sig, format!("try_unwrap returned Err for uniquely owned obj{}", oid), false);
                }
                if snap_post != snap_pre || buffered_post != buffered_pre {
                    let p = if restricted { "C12" } else { "C13" };
                    w.violation(&[p], "try-unwrap-err-changed-state", "try-unwrap-err-changed-state".into(), format!("try_unwrap Err changed obj{}: {:?} -> {:?}, buffered {} -> {}", oid, snap_pre, snap_post, buffered_pre, buffered_post), false);
                }
                w.note(|| format!("try_unwrap obj{} = Err", oid));
                let born = w.handles.get(i).map_or(0, |_| 0);
                let _ = born;
                // put it back in the same table slot (the index is stable: slots are never reused)
                let ev = w.ev;
                w.handles[i] = Some(HandleE { oid, cc, born: ev.min(ev) });
            });
        }
    }
}

pub fn stack_sig_pub(w: &World) -> String {
    let mut s = String::new();
    for f in &w.frames {
        if !s.is_empty() {
            s.push('>');
        }
        s.push_str(match f.kind {
            Fk::Trace => "trace",
            Fk::Finalize => "finalize",
            Fk::Drop => "drop",
            Fk::Action => "action",
            Fk::Closure => "closure",
        });
        if f.collecting {
            s.push('*');
        }
    }
    if s.is_empty() {
        s.push_str("top");
    }
    s
}

pub fn do_finalize_again(sel: Sel, top: bool) {
    #[cfg(feature = "finalization")]
    {
        let Some((i, oid, _)) = sel_handle(sel) else { return };
        let cp = w(|w| &mut w.handles[i].as_mut().unwrap().cc as *mut Cc<Node>);
        let before = unsafe { &*cp }.already_finalized();
        let r = catch_unwind(AssertUnwindSafe(|| {
            let _b = Bracket::open();
            unsafe { &mut *cp }.finalize_again();
        }));
        let after = unsafe { &*cp }.already_finalized();
        w(|w| {
            let restricted = !top && w.restricted();
            w.note(|| format!("finalize_again obj{} -> {}", oid, if r.is_ok() { "ok" } else { "panic" }));
            if restricted {
                if r.is_ok() {
                    let sig = format!("finalize-again-allowed/{}", stack_sig_pub(w));
                    w.violation(&["C12"], "finalize-again-in-callback", sig, format!("finalize_again did not panic inside a callback (obj{})", oid), false);
                    // keep the model in step with what happened
                    let o = &mut w.objs[oid as usize];
                    if o.model_finalized {
                        o.model_finalized = false;
                        o.fin_allowed += 1;
                    }
                } else if after != before {
                    w.violation(&["C12"], "finalize-again-changed-state", "finalize-again-changed-state".into(), format!("refused finalize_again changed already_finalized of obj{}", oid), false);
                }
            } else if r.is_err() {
                if top {
                    w.violation(&["C05"], "finalize-again-panicked", "finalize-again-panicked/top".into(), format!("finalize_again panicked at top level (obj{})", oid), false);
                }
            } else {
                let o = &mut w.objs[oid as usize];
                if o.model_finalized {
                    o.model_finalized = false;
                    o.fin_allowed = o.fin_count + 1;
                }
                o.born_in_finalizer = false;
                if after {
                    w.violation(&["C05"], "finalize-again-no-effect", "finalize-again-no-effect".into(), format!("already_finalized() still true after finalize_again (obj{})", oid), false);
                }
            }
        });
    }
    #[cfg(not(feature = "finalization"))]
    let _ = (sel, top);
}

// ---------------------------------------------------------------------------------------
// new_cyclic

#[cfg(feature = "weak-ptrs")]
pub fn do_new_cyclic(spec: &Spec, clo: &[CloOp]) {
    let reserved = w(|w| {
        if w.objs.len() >= 48 || w.budget_exceeded {
            return None;
        }
        let oid = new_obj(w, spec.clone());
        let o = &mut w.objs[oid as usize];
        o.loose = false;
        o.cyclic = true;
        w.note(|| format!("new_cyclic obj{}", oid));
        Some((oid, w.epoch))
    });
    let Some((oid, epoch)) = reserved else { return };
    let exec0 = state::executions_count().unwrap_or(0);
    let serial0 = alloc::serial_now();
    let clo_v: Vec<CloOp> = clo.to_vec();
    let closure = move |weak: &Weak<Node>| -> Node {
        let _s = Bracket::suspend();
        // the box exists now, the value does not
        w(|w| {
            w.ev += 1;
            w.stats.closure_events += 1;
            let o = &mut w.objs[oid as usize];
            o.uninit = true;
            *w.extra_weak.entry(oid).or_insert(0) += 1; // the provided weak
            w.frames.push(Frame { kind: Fk::Closure, oid, collecting: false, in_batch: false, manual: false });
            w.ptr_ops_in_callbacks = true;
            // locate the box: newest tracked block since the call started that is no side record
            let blocks = alloc::blocks_since(serial0);
            if let Some(b) = blocks.iter().rev().find(|b| b.live && b.size >= payload_offset() + std::mem::size_of::<Node>()) {
                let o = &mut w.objs[oid as usize];
                o.box_addr = b.addr;
                o.box_size = b.size;
                o.box_align = b.align;
                // new_cyclic allocates the weak side record right after the box: the next tracked block
                if let Some(r) = blocks.iter().find(|r| r.serial == b.serial + 1 && r.live && r.size < b.size) {
                    o.side_rec = r.addr;
                }
            }
        });
        struct ClosureGuard(Oid, bool);
        impl Drop for ClosureGuard {
            fn drop(&mut self) {
                let oid = self.0;
                let completed = self.1;
                w(|w| {
                    w.frames.pop();
                    let n = w.extra_weak.get_mut(&oid).unwrap();
                    *n -= 1;
                    if *n == 0 {
                        w.extra_weak.remove(&oid);
                    }
                    if !completed {
                        let o = &mut w.objs[oid as usize];
                        o.uninit = false;
                        o.never_init = true;
                    }
                });
            }
        }
        let mut _cg = ClosureGuard(oid, false);
        // C14: dead inside
        let (sc, wc) = {
            let _b = Bracket::open();
            (weak.strong_count(), weak.weak_count())
        };
        let up = {
            let _b = Bracket::open();
            weak.upgrade()
        };
        w(|w| {
            if sc != 0 {
                w.violation(&["C14", "C09"], "cyclic-strong-count-inside", "cyclic-strong-count-inside".into(), format!("strong_count() == {} inside the new_cyclic closure of obj{}", sc, oid), false);
            }
            if up.is_some() {
                w.violation(&["C14", "C08"], "cyclic-upgrade-inside", "cyclic-upgrade-inside".into(), format!("upgrade() succeeded inside the new_cyclic closure of obj{}", oid), false);
            }
            let exp = w.shadow_weak(oid);
            if wc != exp {
                w.violation(&["C09", "C14"], "cyclic-weak-count-inside", "cyclic-weak-count-inside".into(), format!("weak_count() == {} inside the closure of obj{}, expected {}", wc, oid, exp), false);
            }
        });
        if let Some(cc) = up {
            std::mem::forget(cc);
        }
        let mut wself: [Option<Weak<Node>>; 2] = [None, None];
        struct Pending<'a>(&'a mut [Option<Weak<Node>>; 2], Oid);
        impl Drop for Pending<'_> {
            fn drop(&mut self) {
                // unwinding: the pending clones die with the closure frame
                for s in self.0.iter_mut() {
                    if s.take().is_some() {
                        let oid = self.1;
                        w(|w| {
                            let n = w.extra_weak.get_mut(&oid).unwrap();
                            *n -= 1;
                            if *n == 0 {
                                w.extra_weak.remove(&oid);
                            }
                        });
                    }
                }
            }
        }
        let mut links: [Option<(Oid, Cc<Node>)>; NSLOTS] = [None, None, None, None];
        {
            let pend = Pending(&mut wself, oid);
            for op in &clo_v {
                match op {
                    CloOp::StoreWeakSelf(ws) => {
                        let ws = (*ws as usize) % 2;
                        if pend.0[ws].is_none() {
                            let c = {
                                let _b = Bracket::open();
                                weak.clone()
                            };
                            pend.0[ws] = Some(c);
                            w(|w| *w.extra_weak.entry(oid).or_insert(0) += 1);
                        }
                    }
                    CloOp::StashWeak => {
                        let c = {
                            let _b = Bracket::open();
                            weak.clone()
                        };
                        w(|w| w.weaks.push(Some(WeakE { target: Some(oid), w: c })));
                    }
                    CloOp::AllocStash => do_new(&Spec::default()),
                    CloOp::Collect => prim_collect(),
                    CloOp::LinkTo(s, sel) => {
                        let s = (*s as usize) % NSLOTS;
                        if links[s].is_none() {
                            let got = w(|w| {
                                let i = World::pick(&w.handles, *sel)?;
                                let h = w.handles[i].as_ref().unwrap();
                                let c = prim_clone(&h.cc);
                                // held by the closure frame: counts as in-flight until stored
                                *w.inflight.entry(h.oid).or_insert(0) += 1;
                                Some((h.oid, c))
                            });
                            links[s] = got;
                        }
                    }
                }
            }
            if w(|w| fault_due(w, Kind::Closure)) {
                // release what the closure frame holds, with bookkeeping, then unwind
                for l in links.iter_mut() {
                    if let Some((t, cc)) = l.take() {
                        w(|w| {
                            let n = w.inflight.get_mut(&t).unwrap();
                            *n -= 1;
                            if *n == 0 {
                                w.inflight.remove(&t);
                            }
                        });
                        prim_drop(cc, t);
                    }
                }
                drop(pend);
                std::panic::resume_unwind(Box::new(Injected(Kind::Closure, 0)));
            }
            std::mem::forget(pend);
        }
        // build the value last
        let node = Node::new(oid, epoch);
        w(|w| {
            let born = w.ev;
            for (ws, slot) in wself.iter().enumerate() {
                if slot.is_some() {
                    w.objs[oid as usize].wslots[ws] = Some(Some(oid));
                    let n = w.extra_weak.get_mut(&oid).unwrap();
                    *n -= 1;
                    if *n == 0 {
                        w.extra_weak.remove(&oid);
                    }
                }
            }
            for (s, l) in links.iter().enumerate() {
                if let Some((t, _)) = l {
                    w.objs[oid as usize].slots[s] = Some(Edge { to: *t, born });
                    let n = w.inflight.get_mut(t).unwrap();
                    *n -= 1;
                    if *n == 0 {
                        w.inflight.remove(t);
                    }
                }
            }
            // from here on the value exists (edges live), inside a box with strong count 0
            w.objs[oid as usize].uninit = false;
        });
        for (ws, slot) in wself.iter_mut().enumerate() {
            if let Some(c) = slot.take() {
                *node.weaks[ws].borrow_mut() = Some(c);
            }
        }
        for (s, l) in links.iter_mut().enumerate() {
            if let Some((_, cc)) = l.take() {
                *node.slot(s).borrow_mut() = Some(cc);
            }
        }
        _cg.1 = true;
        node
    };
    let res = catch_unwind(AssertUnwindSafe(|| {
        let _b = Bracket::open();
        Cc::new_cyclic(closure)
    }));
    let exec1 = state::executions_count().unwrap_or(0);
    match res {
        Ok(cc) => {
            let snap = verif::object_snapshot(&cc);
            let blk = alloc::block_at(snap.box_addr);
            let sc = cc.strong_count();
            w(|w| {
                if exec1 != exec0 {
                    w.stats.auto_collections += 1;
                    w.stats.classes.insert("cyclic-with-collection".into());
                    w.flags.c14 = true;
                }
                let o = &mut w.objs[oid as usize];
                o.in_box = true;
                o.box_addr = snap.box_addr;
                o.payload = snap.box_addr + payload_offset();
                if let Some(b) = blk {
                    o.box_size = b.size;
                    o.box_align = b.align;
                }
                if sc != 1 {
                    w.violation(&["C14", "C04"], "cyclic-strong-count-after", "cyclic-strong-count-after".into(), format!("strong_count() == {} right after new_cyclic (obj{})", sc, oid), false);
                }
                push_handle(w, oid, cc);
            });
        }
        Err(payload) => {
            w(|w| {
                let o = &mut w.objs[oid as usize];
                o.uninit = false;
                if !o.dropped {
                    o.never_init = true;
                }
                w.stats.classes.insert("cyclic-panicked".into());
                if w.shadow_weak(oid) > 0 {
                    w.flags.c14 = true;
                    w.stats.classes.insert("cyclic-panicked-weak-saved".into());
                }
                if exec1 != exec0 {
                    w.stats.classes.insert("cyclic-collection-panicked".into());
                }
                // C14: "all memory is released" - no box allocated by this call may survive it, whether
                // the closure or the collection started by new_cyclic panicked
                let known: std::collections::BTreeSet<usize> = w.objs.iter().filter(|o| o.id != oid && o.box_addr != 0).map(|o| o.box_addr).collect();
                let node_box = payload_offset() + std::mem::size_of::<Node>();
                for b in alloc::blocks_since(serial0) {
                    if b.live && b.size >= node_box && b.size < node_box + 64 && !known.contains(&b.addr) {
                        w.violation(&["C14", "C03"], "cyclic-box-leaked", "cyclic-box-leaked".into(), format!("a {}-byte box allocated by the panicked new_cyclic call of obj{} is still allocated", b.size, oid), false);
                        break;
                    }
                }
            });
            std::panic::resume_unwind(payload);
        }
    }
}
