//! Top-level operations of heap programs (everything in `Op`), cleaner actions, and the
//! begin/end-of-call bookkeeping.

use std::panic::{catch_unwind, AssertUnwindSafe};

use rust_cc::{state, verif, Cc};
#[cfg(feature = "weak-ptrs")]
use rust_cc::weak::Weak;

use crate::alloc::{self, Bracket};
use crate::case::*;
use crate::checks;
use crate::heap::*;
use crate::world::*;

fn sel_handle(sel: Sel) -> Option<(usize, Oid, usize)> {
    w(|w| {
        let i = World::pick(&w.handles, sel)?;
        let oid = w.handles[i].as_ref().unwrap().oid;
        Some((i, oid, w.objs[oid as usize].payload))
    })
}

fn take_handle(i: usize) -> (Oid, Cc<Node>) {
    w(|w| {
        let h = w.handles[i].take().unwrap();
        (h.oid, h.cc)
    })
}

pub fn begin_call(opi: i32) {
    w(|w| {
        w.op = opi;
        w.call += 1;
        w.panicked_this_call = false;
        w.trace_in_call = false;
        w.last_trace_ev = None;
        w.callbacks_in_call = 0;
        w.created_in_call = 0;
        w.fin_seen_in_call = 0;
        w.drop_seen_in_call = 0;
        w.exec_before = state::executions_count().unwrap_or(0);
        w.stats.ops_run += 1;
        w.glue_targets.clear();
        w.ptr_ops_in_callbacks = false;
        w.flags.fin_in_collector_call = 0;
        w.flags.rc_drops_in_call = 0;
        w.flags.rc_drop_hist_in_call = false;
        w.flags.collector_drops_in_call = 0;
        w.flags.res_in_call = w.stats.resurrections;
        if opi >= 0 && w.flags.c01_pending {
            w.flags.c01 = true;
        }
    });
}

/// Runs one top-level operation with the fault boundary around it, then the boundary checks.
pub fn exec_op(opi: i32, op: &Op) {
    begin_call(opi);
    w(|w| w.note(|| format!("== op {:?}", op)));
    let r = catch_unwind(AssertUnwindSafe(|| do_op(op)));
    end_call(r);
}

pub fn end_call(r: Result<(), Box<dyn std::any::Any + Send>>) {
    let injected = match &r {
        Ok(()) => false,
        Err(p) => p.downcast_ref::<Injected>().is_some(),
    };
    if let Err(p) = &r {
        if !injected {
            let msg = p
                .downcast_ref::<String>()
                .cloned()
                .or_else(|| p.downcast_ref::<&str>().map(|s| s.to_string()))
                .unwrap_or_else(|| "<non-string panic>".into());
            let loc = crate::engine::last_panic_loc();
            w(|w| {
                let fired = w.panicked_this_call;
                let short: String = msg.chars().take(60).collect::<String>().replace(' ', "_");
                let sig = format!("unexpected-panic/{}/after-fault={}", short, fired as u8);
                // a crate panic escaping an API call: owned by the property of that call
                let mut prop = owner_of_op(w);
                if loc.contains("harness/src") || loc.contains("rccv") {
                    prop = "HARNESS";
                }
                let msg = format!("{} at {}", msg, loc);
                if prop != "HARNESS" && w.fin_res_op_call == w.call && w.call != 0 {
                    // the call that panicked ran a finalizer that was making garbage reachable again
                    w.violation(&[prop, "C06"], "unexpected-panic", sig, format!("API call panicked while a finalizer was resurrecting: {}", msg), false);
                } else {
                    w.violation(&[prop], "unexpected-panic", sig, format!("API call panicked: {}", msg), false);
                }
                w.any_panic = true;
                w.panicked_this_call = true;
            });
        }
    }
    w(|w| {
        if w.panicked_this_call {
            // C07: the fault reached the caller of the triggering API call
            if r.is_ok() {
                w.violation(&["C07"], "fault-swallowed", "fault-swallowed".into(), "an injected panic did not reach the caller of the API call".into(), false);
            }
            // frames / in-flight pointers of the unwound call are gone
            w.frames.clear();
            w.clean_calls.clear();
            w.clean_aids.clear();
            w.pinned.clear();
            let mut fl: Vec<Oid> = w.inflight.keys().copied().collect();
            fl.extend(w.glue_targets.iter().copied());
            for oid in fl {
                w.objs[oid as usize].slack = true;
            }
            w.inflight.clear();
            // taint: objects unreachable now may have been left half-processed
            let reach = w.reach(None);
            for o in w.objs.iter_mut() {
                if !reach.contains(&o.id) {
                    o.tainted = true;
                }
            }
            w.stats.classes.insert("unwound-call".into());
            if w.trace_in_call {
                w.stats.classes.insert("unwound-collection".into());
            }
        }
    });
    w(|w| {
        let exec_now = state::executions_count().unwrap_or(0);
        let no_collection = exec_now == w.exec_before && !w.trace_in_call;
        if w.flags.rc_drops_in_call >= 2 && w.flags.rc_drop_hist_in_call && no_collection {
            w.flags.c04 = true;
        }
        if w.flags.collector_drops_in_call > 0 {
            let reach = w.reach(None);
            if w.objs.iter().any(|o| o.lost_ptr && !o.dropped && reach.contains(&o.id)) {
                w.flags.c01_pending = true;
            }
            if w.stats.resurrections > w.flags.res_in_call {
                w.flags.c06_partial = true;
            }
        }
        let op_kind = w.cur_op_kind;
        if let Ok(b) = state::buffered_objects_count() {
            if b != w.flags.c11_last {
                w.flags.c11_last = b;
                w.flags.c11_changes += 1;
                w.flags.c11_kinds.insert(op_kind);
            }
        }
    });
    checks::boundary(r.is_err());
}

fn owner_of_op(w: &World) -> &'static str {
    // filled in by do_op through w.cur_owner
    w.cur_owner
}

fn set_owner(p: &'static str) {
    w(|w| w.cur_owner = p);
}

fn op_kind(op: &Op) -> u8 {
    match op {
        Op::New(_) => 0,
        Op::NewCyclic(..) => 1,
        Op::Clone(_) => 2,
        Op::Drop(_) => 3,
        Op::SetSlot { .. } => 4,
        Op::MoveSlot { .. } => 5,
        Op::ClearSlot { .. } => 6,
        Op::TakeSlot { .. } => 7,
        Op::MarkAlive(_) => 8,
        Op::Collect => 9,
        Op::Downgrade(_) => 10,
        Op::WeakClone(_) => 11,
        Op::WeakDrop(_) => 12,
        Op::Upgrade(_) => 13,
        Op::StoreWeak { .. } => 14,
        Op::ClearWeak { .. } => 15,
        Op::WeakNew => 16,
        Op::TryUnwrap(_) => 17,
        Op::DropLoose(_) => 18,
        Op::FinalizeAgain(_) => 19,
        Op::Register { .. } => 20,
        Op::Clean(_) => 21,
        Op::DropCleanable(_) => 22,
        Op::SetConfig { .. } => 23,
        Op::Rel(inner) => op_kind(inner),
    }
}

/// Resolves the relative selectors of `Op::Rel` against the current tables.
fn absolutize(op: &Op) -> Op {
    fn abs<T>(table: &[Option<T>], k: Sel) -> Sel {
        let n = table.iter().filter(|e| e.is_some()).count();
        if n == 0 {
            return 0;
        }
        let idx = (n - 1).saturating_sub(k as usize);
        // smallest selector s with (s * n) >> 8 == idx
        (((idx << 8) + n - 1) / n).min(255) as Sel
    }
    w(|w| {
        let h = |k: Sel| abs(&w.handles, k);
        let wk = |k: Sel| abs(&w.weaks, k);
        match op {
            Op::Clone(a) => Op::Clone(h(*a)),
            Op::Drop(a) => Op::Drop(h(*a)),
            Op::SetSlot { h: a, s, t } => Op::SetSlot { h: h(*a), s: *s, t: h(*t) },
            Op::MoveSlot { h: a, s, t } => Op::MoveSlot { h: h(*a), s: *s, t: h(*t) },
            Op::ClearSlot { h: a, s } => Op::ClearSlot { h: h(*a), s: *s },
            Op::TakeSlot { h: a, s } => Op::TakeSlot { h: h(*a), s: *s },
            Op::MarkAlive(a) => Op::MarkAlive(h(*a)),
            Op::Downgrade(a) => Op::Downgrade(h(*a)),
            Op::WeakClone(a) => Op::WeakClone(wk(*a)),
            Op::WeakDrop(a) => Op::WeakDrop(wk(*a)),
            Op::Upgrade(a) => Op::Upgrade(wk(*a)),
            Op::StoreWeak { h: a, ws, w: b } => Op::StoreWeak { h: h(*a), ws: *ws, w: wk(*b) },
            Op::ClearWeak { h: a, ws } => Op::ClearWeak { h: h(*a), ws: *ws },
            Op::TryUnwrap(a) => Op::TryUnwrap(h(*a)),
            Op::DropLoose(a) => Op::DropLoose(abs(&w.looses, *a)),
            Op::FinalizeAgain(a) => Op::FinalizeAgain(h(*a)),
            Op::Register { h: a, act, cap, weak_owner } => Op::Register { h: h(*a), act: act.clone(), cap: cap.map(|c| h(c)), weak_owner: *weak_owner },
            Op::Clean(a) => Op::Clean(abs(&w.cleanables, *a)),
            Op::DropCleanable(a) => Op::DropCleanable(abs(&w.cleanables, *a)),
            Op::Rel(inner) => (**inner).clone(),
            other => other.clone(),
        }
    })
}

pub fn do_op(op: &Op) {
    if let Op::Rel(inner) = op {
        let resolved = absolutize(inner);
        return do_op(&resolved);
    }
    w(|w| w.cur_op_kind = op_kind(op));
    match op {
        Op::New(spec) => {
            set_owner("C04");
            do_new(spec);
        }
        Op::NewCyclic(spec, clo) => {
            set_owner("C14");
            #[cfg(feature = "weak-ptrs")]
            do_new_cyclic(spec, clo);
            #[cfg(not(feature = "weak-ptrs"))]
            {
                let _ = clo;
                do_new(spec);
            }
        }
        Op::Clone(sel) => {
            set_owner("C04");
            w(|w| {
                if let Some(i) = World::pick(&w.handles, *sel) {
                    let (oid, c) = {
                        let h = w.handles[i].as_ref().unwrap();
                        (h.oid, prim_clone(&h.cc))
                    };
                    let born = w.ev;
                    w.handles.push(Some(HandleE { oid, cc: c, born }));
                    w.objs[oid as usize].unbuffer_ops += 1;
                    w.note(|| format!("clone obj{}", oid));
                }
            });
        }
        Op::Drop(sel) => {
            set_owner("C04");
            if let Some((i, _, _)) = sel_handle(*sel) {
                let (oid, cc) = take_handle(i);
                prim_drop(cc, oid);
            }
        }
        Op::SetSlot { h, s, t } => {
            set_owner("C04");
            let (Some((_, hoid, hp)), Some((ti, toid, _))) = (sel_handle(*h), sel_handle(*t)) else { return };
            let c = w(|w| prim_clone(&w.handles[ti].as_ref().unwrap().cc));
            store_into_slot(hoid, hp, (*s as usize) % NSLOTS, c, toid);
        }
        Op::MoveSlot { h, s, t } => {
            set_owner("C04");
            let (Some((hi, hoid, hp)), Some((ti, _, _))) = (sel_handle(*h), sel_handle(*t)) else { return };
            if hi == ti {
                // `*h.slot = Some(h)` is not expressible in safe Rust (h is borrowed), and it
                // would create garbage that was never buffered
                return;
            }
            let (toid, cc) = take_handle(ti);
            // the owner may have been the same handle: it stays alive through the moved pointer
            store_into_slot(hoid, hp, (*s as usize) % NSLOTS, cc, toid);
        }
        Op::ClearSlot { h, s } => {
            set_owner("C04");
            let Some((_, hoid, hp)) = sel_handle(*h) else { return };
            if let Some((t, cc)) = take_from_slot(hoid, hp, (*s as usize) % NSLOTS) {
                prim_drop(cc, t);
            }
        }
        Op::TakeSlot { h, s } => {
            set_owner("C04");
            let Some((_, hoid, hp)) = sel_handle(*h) else { return };
            if let Some((t, cc)) = take_from_slot(hoid, hp, (*s as usize) % NSLOTS) {
                w(|w| {
                    let born = w.ev;
                    w.handles.push(Some(HandleE { oid: t, cc, born }));
                });
            }
        }
        Op::MarkAlive(sel) => {
            set_owner("C04");
            w(|w| {
                if let Some(i) = World::pick(&w.handles, *sel) {
                    let h = w.handles[i].as_ref().unwrap();
                    let oid = h.oid;
                    {
                        let _b = Bracket::open();
                        h.cc.mark_alive();
                    }
                    w.objs[oid as usize].unbuffer_ops += 1;
                    buf_leave(oid);
                }
            });
        }
        Op::Collect => {
            set_owner("C02");
            prim_collect();
        }
        Op::Downgrade(sel) => {
            set_owner("C09");
            #[cfg(feature = "weak-ptrs")]
            w(|w| {
                if let Some(i) = World::pick(&w.handles, *sel) {
                    let (oid, wk, first) = {
                        let h = w.handles[i].as_ref().unwrap();
                        let first = !verif::object_snapshot(&h.cc).has_side_record();
                        let serial0 = alloc::serial_now();
                        let wk = {
                            let _b = Bracket::open();
                            h.cc.downgrade()
                        };
                        let rec = if first { alloc::blocks_since(serial0).into_iter().find(|b| b.live) } else { None };
                        (h.oid, wk, rec)
                    };
                    if let Some(b) = first {
                        w.objs[oid as usize].side_rec = b.addr;
                    }
                    w.weaks.push(Some(WeakE { target: Some(oid), w: wk }));
                    buf_leave(oid);
                    w.note(|| format!("downgrade obj{}", oid));
                }
            });
            #[cfg(not(feature = "weak-ptrs"))]
            let _ = sel;
        }
        Op::WeakClone(sel) => {
            set_owner("C09");
            #[cfg(feature = "weak-ptrs")]
            w(|w| {
                if let Some(i) = World::pick(&w.weaks, *sel) {
                    let (t, c) = {
                        let e = w.weaks[i].as_ref().unwrap();
                        let _b = Bracket::open();
                        (e.target, e.w.clone())
                    };
                    w.weaks.push(Some(WeakE { target: t, w: c }));
                }
            });
            #[cfg(not(feature = "weak-ptrs"))]
            let _ = sel;
        }
        Op::WeakDrop(sel) => {
            set_owner("C09");
            #[cfg(feature = "weak-ptrs")]
            {
                let e = w(|w| World::pick(&w.weaks, *sel).and_then(|i| w.weaks[i].take()));
                if let Some(e) = e {
                    let _b = Bracket::open();
                    drop(e.w);
                }
            }
            #[cfg(not(feature = "weak-ptrs"))]
            let _ = sel;
        }
        Op::Upgrade(sel) => {
            set_owner("C08");
            #[cfg(feature = "weak-ptrs")]
            do_upgrade(*sel, true);
            #[cfg(not(feature = "weak-ptrs"))]
            let _ = sel;
        }
        Op::StoreWeak { h, ws, w: wsel } => {
            set_owner("C09");
            #[cfg(feature = "weak-ptrs")]
            {
                let Some((_, hoid, hp)) = sel_handle(*h) else { return };
                let ws = (*ws as usize) % 2;
                let got = w(|w| {
                    let i = World::pick(&w.weaks, *wsel)?;
                    let e = w.weaks[i].as_ref().unwrap();
                    let _b = Bracket::open();
                    Some((e.target, e.w.clone()))
                });
                let Some((t, c)) = got else { return };
                let n: &Node = unsafe { &*(hp as *const Node) };
                let old = n.weaks[ws].replace(Some(c));
                w(|w| w.objs[hoid as usize].wslots[ws] = Some(t));
                let _b = Bracket::open();
                drop(old);
            }
            #[cfg(not(feature = "weak-ptrs"))]
            let _ = (h, ws, wsel);
        }
        Op::ClearWeak { h, ws } => {
            set_owner("C09");
            #[cfg(feature = "weak-ptrs")]
            {
                let Some((_, hoid, hp)) = sel_handle(*h) else { return };
                let ws = (*ws as usize) % 2;
                let n: &Node = unsafe { &*(hp as *const Node) };
                let old = n.weaks[ws].replace(None);
                w(|w| w.objs[hoid as usize].wslots[ws] = None);
                let _b = Bracket::open();
                drop(old);
            }
            #[cfg(not(feature = "weak-ptrs"))]
            let _ = (h, ws);
        }
        Op::WeakNew => {
            set_owner("C08");
            #[cfg(feature = "weak-ptrs")]
            w(|w| w.weaks.push(Some(WeakE { target: None, w: Weak::new() })));
        }
        Op::TryUnwrap(sel) => {
            set_owner("C13");
            do_try_unwrap(*sel, true);
        }
        Op::DropLoose(sel) => {
            set_owner("C04");
            let e = w(|w| World::pick(&w.looses, *sel).and_then(|i| w.looses[i].take()));
            if let Some(e) = e {
                w(|w| w.note(|| format!("drop loose value of obj{}", e.oid)));
                let _b = Bracket::open();
                drop(e.node);
            }
        }
        Op::FinalizeAgain(sel) => {
            set_owner("C05");
            do_finalize_again(*sel, true);
        }
        Op::Register { h, act, cap, weak_owner } => {
            set_owner("C10");
            #[cfg(feature = "cleaners")]
            do_register(*h, act, *cap, *weak_owner);
            #[cfg(not(feature = "cleaners"))]
            let _ = (h, act, cap, weak_owner);
        }
        Op::Clean(sel) => {
            set_owner("C10");
            #[cfg(feature = "cleaners")]
            do_clean(*sel, true);
            #[cfg(not(feature = "cleaners"))]
            let _ = sel;
        }
        Op::DropCleanable(sel) => {
            set_owner("C10");
            #[cfg(feature = "cleaners")]
            {
                let e = w(|w| World::pick(&w.cleanables, *sel).and_then(|i| w.cleanables[i].take()));
                if let Some(e) = e {
                    let before = w(|w| w.actions[e.aid].runs);
                    {
                        let _b = Bracket::open();
                        drop(e.c);
                    }
                    w(|w| {
                        if w.actions[e.aid].runs != before {
                            w.violation(&["C10"], "cleanable-drop-ran-action", "cleanable-drop-ran-action".into(), format!("dropping a Cleanable ran action {}", e.aid), false);
                        }
                    });
                }
            }
            #[cfg(not(feature = "cleaners"))]
            let _ = sel;
        }
        Op::Rel(_) => unreachable!("resolved above"),
        Op::SetConfig { auto, thr, pct } => {
            set_owner("C15");
            #[cfg(feature = "auto-collect")]
            {
                use std::num::NonZeroUsize;
                let pcts = [0.0, 0.1, 0.5, 1.0];
                let p = pcts[(*pct as usize) % pcts.len()];
                let t = if *thr == 0 { None } else { NonZeroUsize::new((*thr as usize) % 8 + 1) };
                let _ = rust_cc::config::config(|c| {
                    c.set_auto_collect(*auto);
                    c.set_adjustment_percent(p);
                    c.set_buffered_objects_threshold(t);
                });
                w(|w| w.auto_model = *auto);
            }
            #[cfg(not(feature = "auto-collect"))]
            let _ = (auto, thr, pct);
        }
    }
}

// ---------------------------------------------------------------------------------------
// cleaners

#[cfg(feature = "cleaners")]
struct ActionEnv {
    aid: usize,
    captured: Option<(Oid, Cc<Node>)>,
    owner_weak: Option<(Oid, Weak<Node>)>,
}

#[cfg(feature = "cleaners")]
impl ActionEnv {
    fn release_captured(&mut self) {
        if let Some((t, cc)) = self.captured.take() {
            let aid = self.aid;
            w(|w| w.actions[aid].captured = None);
            prim_drop(cc, t);
        }
    }
}

#[cfg(feature = "cleaners")]
impl Drop for ActionEnv {
    fn drop(&mut self) {
        // bookkeeping that cannot unwind first: releasing the captured Cc may run callbacks
        if let Some((t, wk)) = self.owner_weak.take() {
            {
                let _b = Bracket::open();
                drop(wk);
            }
            w(|w| {
                if let Some(n) = w.extra_weak.get_mut(&t) {
                    *n -= 1;
                    if *n == 0 {
                        w.extra_weak.remove(&t);
                    }
                }
            });
        }
        struct Done(usize);
        impl Drop for Done {
            fn drop(&mut self) {
                let aid = self.0;
                w(|w| w.actions[aid].done = true);
            }
        }
        let _d = Done(self.aid);
        self.release_captured();
    }
}

#[cfg(feature = "cleaners")]
fn do_register(h: Sel, act: &[ActOp], cap: Option<Sel>, weak_owner: bool) {
    let Some((hi, hoid, hp)) = sel_handle(h) else { return };
    if w(|w| w.actions.len() >= 24) {
        return;
    }
    // capture a clone of another handle (never of the owner itself: the docs forbid it, it
    // would only leak)
    let captured = cap.and_then(|c| {
        w(|w| {
            let i = World::pick(&w.handles, c)?;
            let hh = w.handles[i].as_ref().unwrap();
            if hh.oid == hoid {
                return None;
            }
            // also refuse captures that would make the owner reachable from the captured object
            let sub = w.reach_from(hh.oid);
            if sub.contains(&hoid) {
                return None;
            }
            Some((hh.oid, prim_clone(&hh.cc)))
        })
    });
    let owner_weak = if weak_owner {
        w(|w| {
            let hh = w.handles[hi].as_ref().unwrap();
            let first = !verif::object_snapshot(&hh.cc).has_side_record();
            let serial0 = alloc::serial_now();
            let wk = {
                let _b = Bracket::open();
                hh.cc.downgrade()
            };
            if first {
                if let Some(b) = alloc::blocks_since(serial0).into_iter().find(|b| b.live) {
                    w.objs[hoid as usize].side_rec = b.addr;
                }
            }
            *w.extra_weak.entry(hoid).or_insert(0) += 1;
            buf_leave(hoid);
            Some((hoid, wk))
        })
    } else {
        None
    };
    let aid = w(|w| {
        w.actions.push(ActionM {
            owner: hoid,
            script: act.to_vec(),
            captured: captured.as_ref().map(|c| c.0),
            weak_owner,
            runs: 0,
            manual: false,
            done: false,
            reported: false,
        });
        let aid = w.actions.len() - 1;
        w.objs[hoid as usize].actions.push(aid);
        w.note(|| format!("register action {} on obj{} (captures {:?})", aid, hoid, captured.as_ref().map(|c| c.0)));
        aid
    });
    let mut env = ActionEnv { aid, captured, owner_weak };
    let closure = move || {
        let _s = Bracket::suspend();
        run_action(&mut env);
    };
    let n: &Node = unsafe { &*(hp as *const Node) };
    let had_map = w(|w| w.objs[hoid as usize].map_box != 0);
    let bytes0 = state::allocated_bytes().unwrap_or(0);
    let serial0 = alloc::serial_now();
    let exec0 = state::executions_count().unwrap_or(0);
    let cleanable = {
        // the program borrows handle `hi` for the duration of the call
        struct Pin;
        impl Drop for Pin {
            fn drop(&mut self) {
                w(|w| {
                    w.pinned.pop();
                });
            }
        }
        w(|w| w.pinned.push(hi));
        let _pin = Pin;
        let _b = Bracket::open();
        n.cleaner.register(closure)
    };
    let exec1 = state::executions_count().unwrap_or(0);
    let bytes1 = state::allocated_bytes().unwrap_or(0);
    w(|w| {
        if !had_map {
            // the cleaner allocated its (crate-internal) map object: find its box
            let blocks = alloc::blocks_since(serial0);
            let delta = bytes1.wrapping_sub(bytes0);
            if exec1 == exec0 {
                if let Some(b) = blocks.iter().find(|b| b.live && b.size == delta) {
                    w.objs[hoid as usize].map_box = b.addr;
                    w.objs[hoid as usize].map_size = b.size;
                    w.map_size_const = b.size;
                }
            }
            if w.objs[hoid as usize].map_box == 0 {
                // a collection ran inside register(): use the calibrated size to find the box
                let sz = w.map_size_const;
                if let Some(b) = blocks.iter().find(|b| b.live && sz != 0 && b.size == sz) {
                    w.objs[hoid as usize].map_box = b.addr;
                    w.objs[hoid as usize].map_size = b.size;
                } else {
                    w.objs[hoid as usize].map_box = usize::MAX; // unknown: byte accounting is skipped
                    w.bytes_unknown = true;
                }
            }
        }
        w.cleanables.push(Some(CleanE { aid, c: cleanable }));
    });
}

#[cfg(feature = "cleaners")]
fn run_action(env: &mut ActionEnv) {
    let aid = env.aid;
    let flags = verif::state_flags().unwrap_or((false, false, false));
    let tracing = state::is_tracing().unwrap_or(false);
    let owner = w(|w| {
        w.ev += 1;
        w.stats.action_events += 1;
        let a = &mut w.actions[aid];
        a.runs += 1;
        let (runs, owner) = (a.runs, a.owner);
        w.note(|| format!("action {} of obj{} runs (#{})", aid, owner, runs));
        if runs > 1 {
            w.violation(&["C10"], "action-ran-twice", "action-ran-twice".into(), format!("cleaning action {} ran {} times", aid, runs), false);
        }
        if tracing {
            let sig = format!("is-tracing-true-in-action/{}", stack_sig_pub(w));
            w.violation(&["C12"], "is-tracing-in-action", sig, "is_tracing() == true inside a cleaning action".into(), false);
        }
        let manual = w.clean_calls.last() == Some(&w.frames.len());
        // C10: an action runs only because its own Cleanable::clean() was called, or because its
        // Cleaner is being dropped (the owner's destructor has started)
        let own_clean = manual && w.clean_aids.last() == Some(&aid);
        let owner_gone = {
            let o = &w.objs[owner as usize];
            o.dropped || o.moved_out && !o.in_box
        };
        if !own_clean && !owner_gone && !w.any_panic && !w.panicked_this_call {
            let why = if manual { "by-clean-of-another-action" } else { "owner-alive-no-clean" };
            let sig = format!("action-ran-unrequested/{}", why);
            let d = format!("cleaning action {} of obj{} ran although its clean() was not called and its Cleaner is alive (running clean() is for action {:?})", aid, owner, w.clean_aids.last());
            w.violation(&["C10"], "action-ran-unrequested", sig, d, false);
        }
        w.ptr_ops_in_callbacks = true;
        w.frames.push(Frame { kind: Fk::Action, oid: owner, collecting: flags.0, in_batch: false, manual });
        owner
    });
    struct FG;
    impl Drop for FG {
        fn drop(&mut self) {
            w(|w| {
                w.frames.pop();
            });
        }
    }
    let _fg = FG;
    if w(|w| fault_due(w, Kind::Action)) {
        std::panic::resume_unwind(Box::new(Injected(Kind::Action, 0)));
    }
    let script = w(|w| w.actions[aid].script.clone());
    for op in &script {
        if w(|w| w.budget_exceeded) {
            break;
        }
        match op {
            ActOp::DropCaptured => env.release_captured(),
            ActOp::AllocStash => do_new(&Spec::default()),
            ActOp::AllocDrop => {
                if let Some((oid, cc)) = prim_new(Spec::default()) {
                    prim_drop(cc, oid);
                }
            }
            ActOp::UpgradeOwner => {
                if let Some((t, wk)) = env.owner_weak.as_ref() {
                    debug_assert_eq!(*t, owner);
                    if let Some(cc) = prim_upgrade(wk, Some(*t), false) {
                        upgraded_keep(Some(*t), cc);
                    }
                }
            }
            ActOp::UpgradeHandle(sel) => do_upgrade(*sel, false),
            ActOp::CleanOther(sel) => do_clean(*sel, false),
            ActOp::Collect => prim_collect(),
            ActOp::TryUnwrapCaptured => {
                if let Some((t, cc)) = env.captured.take() {
                    // hand it to the program and try there
                    let idx = w(|w| {
                        w.actions[aid].captured = None;
                        let born = w.ev;
                        w.handles.push(Some(HandleE { oid: t, cc, born }));
                        w.handles.len() - 1
                    });
                    try_unwrap_at(idx);
                }
            }
        }
    }
}

#[cfg(feature = "cleaners")]
fn upgraded_keep(target: Option<Oid>, cc: Cc<Node>) {
    let ok = w(|w| match target {
        Some(t) => {
            let o = &w.objs[t as usize];
            !o.dropped && !o.moved_out && !o.uninit && !o.never_init && o.in_box
        }
        None => false,
    });
    if ok {
        w(|w| {
            let born = w.ev;
            w.handles.push(Some(HandleE { oid: target.unwrap(), cc, born }));
        });
    } else {
        std::mem::forget(cc);
    }
}

#[cfg(feature = "cleaners")]
fn try_unwrap_at(idx: usize) {
    // selector that maps onto exactly this table index
    let sel = w(|w| {
        let live: Vec<usize> = w.handles.iter().enumerate().filter(|(_, e)| e.is_some()).map(|(i, _)| i).collect();
        let k = live.iter().position(|&i| i == idx).unwrap();
        // smallest sel with (sel * n) >> 8 == k
        let n = live.len();
        (((k << 8) + n - 1) / n) as u8
    });
    do_try_unwrap(sel, false);
}

#[cfg(feature = "cleaners")]
pub fn do_clean(sel: Sel, top: bool) {
    let got = w(|w| {
        let i = World::pick(&w.cleanables, sel)?;
        let e = w.cleanables[i].as_ref().unwrap();
        Some((&e.c as *const rust_cc::cleaners::Cleanable, e.aid))
    });
    let Some((cp, aid)) = got else { return };
    let (runs0, owner, running) = w(|w| {
        let a = &w.actions[aid];
        let owner = a.owner;
        // is an action of the same cleaner (same owner) running right now?
        let running = w.frames.iter().any(|f| f.kind == Fk::Action && f.oid == owner);
        (a.runs, owner, running)
    });
    w(|w| {
        w.note(|| format!("clean() action {} of obj{}", aid, owner));
        let d = w.frames.len();
        w.clean_calls.push(d);
        w.clean_aids.push(aid);
    });
    {
        struct G;
        impl Drop for G {
            fn drop(&mut self) {
                w(|w| {
                    w.clean_calls.pop();
                    w.clean_aids.pop();
                });
            }
        }
        let _g = G;
        let _b = Bracket::open();
        unsafe { &*cp }.clean();
    }
    w(|w| {
        let a = &mut w.actions[aid];
        let runs1 = a.runs;
        if runs1 > runs0 {
            a.manual = true;
        }
        let owner_dropped = w.objs[owner as usize].dropped;
        if top && !w.panicked_this_call && !w.any_panic {
            if runs1 != 1 && !running {
                // at top level, after clean() returns the action has run exactly once -- unless
                // the cleaner (its owner) was destroyed earlier, which also ran it
                let sig = format!("clean-did-not-run/{}", if owner_dropped { "owner-dropped" } else { "owner-live" });
                w.violation(&["C10"], "clean-did-not-run", sig, format!("action {} ran {} times after a top-level clean()", aid, runs1), false);
            }
        }
    });
}
