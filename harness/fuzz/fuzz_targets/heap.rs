#![no_main]
//! Coverage-guided fuzz target: bytes -> heap program (+ fault plan) -> same interpreter and
//! rules as the proptest engine. A violation of the selected property (RCCV_FUZZ_PROP, default
//! any) that is not a known finding aborts the process, so libFuzzer saves the input.

use libfuzzer_sys::fuzz_target;
use std::sync::OnceLock;

use rccv::run::{run_case, Outcome, RunOpts};

static OPTS: OnceLock<(RunOpts, String)> = OnceLock::new();

fn opts() -> &'static (RunOpts, String) {
    OPTS.get_or_init(|| {
        rccv::engine::install_quiet_hook();
        let prop = std::env::var("RCCV_FUZZ_PROP").unwrap_or_else(|_| "*".into());
        let known = std::env::var("RCCV_KNOWN").map(|p| rccv::engine::load_known(&p, "*")).unwrap_or_default();
        (RunOpts { strict: false, logging: false, known, quiesce_mid: false, timeout_s: 20, persist: false, prop: prop.clone(), config: "fuzz".into() }, prop)
    })
}

fuzz_target!(|data: &[u8]| {
    let (o, prop) = opts();
    let case = rccv::decode::decode(data);
    if case.ops.is_empty() {
        return;
    }
    match run_case(&case, o) {
        Outcome::Hang => {}
        Outcome::Done(r) => {
            for v in &r.violations {
                if v.props.iter().any(|p| p == "HARNESS") {
                    eprintln!("HARNESS ERROR {} :: {}", v.sig, v.detail);
                    std::process::abort();
                }
                if prop == "*" || v.props.iter().any(|p| p == prop) {
                    eprintln!("RCCV-VIOLATION props={:?} sig={} :: {}", v.props, v.sig, v.detail);
                    std::process::abort();
                }
            }
        }
    }
});
