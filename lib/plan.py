"""Which jobs decide which property (configuration matrix, engines, budgets)."""

ALL = ["finalization", "weak-ptrs", "cleaners", "auto-collect", "derive"]
CONFIGS = {
    "full": ALL,
    "nofin": ["weak-ptrs", "cleaners", "auto-collect", "derive"],
    "noauto": ["finalization", "weak-ptrs", "cleaners", "derive"],
    "default": ["finalization", "auto-collect", "derive"],
    "min": [],
}


def g1(config, profile, opprofile, faults, quick, thorough, shard=0):
    return {"engine": "g1", "config": config, "profile": profile, "shard": shard,
            "args": {"profile": opprofile, "faults": faults},
            "quick": {"cases": quick}, "thorough": {"cases": thorough}}


def heap(opprofile, faults, configs, quick=10000, thorough=300000):
    jobs = []
    for k, (c, p) in enumerate(configs):
        jobs.append(g1(c, p, opprofile, faults, quick, thorough, shard=k))
    return jobs


EIGHT = [("full", "dev"), ("full", "release"), ("nofin", "dev"), ("nofin", "release"),
         ("noauto", "dev"), ("default", "dev"), ("default", "release"), ("min", "release")]

PLAN = {
    "C01": heap("general", 2, EIGHT) + heap("resurrection", 1, [("full", "dev"), ("full", "release")]),
    "C02": heap("garbage", 0, [("full", "dev"), ("full", "release"), ("nofin", "dev"), ("noauto", "dev"), ("default", "dev"), ("default", "release")]),
    "C03": heap("general", 2, [("full", "dev"), ("full", "release"), ("nofin", "dev"), ("min", "release")]),
    "C04": heap("general", 1, [("full", "dev"), ("full", "release"), ("nofin", "dev"), ("default", "dev"), ("default", "release")]),
    "C05": heap("finalizers", 1, [("full", "dev"), ("full", "release"), ("noauto", "dev"), ("default", "dev"), ("nofin", "dev")]),
    "C06": heap("resurrection", 0, [("full", "dev"), ("full", "release"), ("noauto", "dev"), ("default", "dev")], quick=20000),
    "C07": heap("general", 2, [("full", "dev"), ("full", "release"), ("nofin", "dev"), ("nofin", "release")]),
    "C08": heap("weak", 1, [("full", "dev"), ("full", "release"), ("nofin", "dev"), ("nofin", "release")]),
    "C09": heap("counts", 1, [("full", "dev"), ("full", "release"), ("nofin", "dev")]),
    "C10": heap("cleaners", 0, [("full", "dev"), ("full", "release"), ("nofin", "dev")], quick=20000),
    "C11": heap("counters", 1, [("full", "dev"), ("full", "release"), ("nofin", "dev"), ("default", "dev")]),
    "C12": heap("nesting", 0, [("full", "dev"), ("full", "release"), ("noauto", "dev"), ("nofin", "dev")]),
    "C13": heap("unwrap", 0, [("full", "dev"), ("full", "release"), ("nofin", "dev"), ("min", "release")], quick=20000),
    "C14": heap("cyclic", 2, [("full", "dev"), ("full", "release"), ("nofin", "dev")]),
}

LEVEL = {"C07": "fault_enumeration"}

RULES = {
    "C01": "proptest-generated heap programs (<=40 ops over Node objects; profile 'general' with up to 2 injected callback panics, plus profile 'resurrection'), each run fault-free and then with faults placed relative to the fault-free callback counts. Non-trivial: a collector call dropped >=1 object while an object that had earlier lost a (non-last) pointer stayed program-reachable, and a further program operation ran afterwards. Distinct by FNV hash of the executed case (ops + fault plan).",
    "C02": "panic-free proptest heap programs (profile 'garbage'); quiescent collection loop at the end with handles held and again after releasing every root. Non-trivial: the collector reclaimed an object lying on a cycle of the shadow graph that had been traced by an earlier collection call or un-buffered (clone/mark_alive) before. Distinct by case hash.",
    "C03": "proptest heap programs with the tracking allocator's rules on. Non-trivial: the case released >=1 allocation through the collector and >=1 through the reference-count path or try_unwrap. Distinct by case hash.",
    "C04": "proptest heap programs; exact shadow strong counts after every operation. Non-trivial: in a call without any collection >=2 objects were reclaimed by the reference-count path (a cascade) and one of them had lost a pointer before or had been traced by an earlier collection. Distinct by case hash.",
    "C05": "proptest heap programs with finalizer-heavy profile. Non-trivial: >=2 finalize calls inside one collector call, or a reference-count-path finalize of an object that had been buffered. Distinct by case hash.",
    "C06": "proptest heap programs whose finalizers resurrect (clone of a field, upgrade of a weak, store into a live object). Non-trivial: a collector call both resurrected >=1 finalized object and dropped >=1 other object, and the resurrected object was later read through a program handle. Distinct by case hash.",
    "C07": "every generated program is executed fault-free, then re-executed with the k-th invocation of a callback kind panicking (k placed by the generator relative to the fault-free counts; up to 2 faults). Non-trivial: after a fault, a later call traced an object that had already been traced before the fault. Distinct by case hash.",
    "C08": "proptest heap programs with weak-heavy profile (upgrades at top level, in finalizers, destructors, cleaning actions). Non-trivial: an upgrade was attempted from a destructor or cleaning action while a collector was running, or the case saw both a successful and a failing upgrade. Distinct by case hash.",
    "C09": "proptest heap programs over few objects with count-heavy profile; Cc::weak_count, Weak::weak_count, Weak::strong_count checked after every operation. Non-trivial: a weak handle was queried after its value had been released. Distinct by case hash.",
    "C10": "proptest heap programs with cleaner profile. Non-trivial: a cleaner with >=2 actions, >=1 of them already run by clean(), whose owner was reclaimed by the collector. Distinct by case hash.",
    "C11": "proptest heap programs; buffer walk, cached size, byte accounting after every operation. Non-trivial: buffered_objects_count() changed >=4 times through >=3 different kinds of operation. Distinct by case hash.",
    "C12": "proptest heap programs with nesting profile. Non-trivial: a collection was started from a callback of a plain reference-count drop, or a collection was requested from a collector callback. Distinct by case hash.",
    "C13": "proptest heap programs with try_unwrap-heavy profile. Non-trivial: an Ok on an object that had lost a pointer before or had weak pointers, and an Err in the same case. Distinct by case hash.",
    "C14": "proptest heap programs with new_cyclic-heavy profile and faults. Non-trivial: a new_cyclic call during which a collection ran, or whose closure panicked after saving a weak clone. Distinct by case hash.",
}
