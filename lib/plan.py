"""Which jobs decide which property (configuration matrix, engines, budgets)."""

ALL = ["finalization", "weak-ptrs", "cleaners", "auto-collect", "derive"]
CONFIGS = {
    "full": ALL,
    "nofin": ["weak-ptrs", "cleaners", "auto-collect", "derive"],
    "noauto": ["finalization", "weak-ptrs", "cleaners", "derive"],
    "default": ["finalization", "auto-collect", "derive"],
    "min": [],
}


def g1(config, profile, opprofile, faults, quick, thorough, shard=0):
    return {"engine": "g1", "config": config, "profile": profile, "shard": shard,
            "args": {"profile": opprofile, "faults": faults},
            "quick": {"cases": quick}, "thorough": {"cases": thorough}}


def heap(opprofile, faults, configs, quick=10000, thorough=300000):
    jobs = []
    for k, (c, p) in enumerate(configs):
        jobs.append(g1(c, p, opprofile, faults, quick, thorough, shard=k))
    return jobs


EIGHT = [("full", "dev"), ("full", "release"), ("nofin", "dev"), ("nofin", "release"),
         ("noauto", "dev"), ("default", "dev"), ("default", "release"), ("min", "release")]

PLAN = {
    "C01": heap("general", 2, EIGHT) + heap("resurrection", 1, [("full", "dev"), ("full", "release")]),
    "C02": heap("garbage", 0, [("full", "dev"), ("full", "release"), ("nofin", "dev"), ("noauto", "dev"), ("default", "dev"), ("default", "release")]),
    "C03": heap("general", 2, [("full", "dev"), ("full", "release"), ("nofin", "dev"), ("min", "release")]),
    "C04": heap("general", 1, [("full", "dev"), ("full", "release"), ("nofin", "dev"), ("default", "dev"), ("default", "release")]),
    "C05": heap("finalizers", 1, [("full", "dev"), ("full", "release"), ("noauto", "dev"), ("default", "dev"), ("nofin", "dev")]),
    "C06": heap("resurrection", 0, [("full", "dev"), ("full", "release"), ("noauto", "dev"), ("default", "dev")], quick=20000),
    "C07": heap("general", 2, [("full", "dev"), ("full", "release"), ("nofin", "dev"), ("nofin", "release")]),
    "C08": heap("weak", 1, [("full", "dev"), ("full", "release"), ("nofin", "dev"), ("nofin", "release")]),
    "C09": heap("counts", 1, [("full", "dev"), ("full", "release"), ("nofin", "dev")]),
    "C10": heap("cleaners", 0, [("full", "dev"), ("full", "release"), ("nofin", "dev")], quick=20000),
    "C11": heap("counters", 1, [("full", "dev"), ("full", "release"), ("nofin", "dev"), ("default", "dev")]),
    "C12": heap("nesting", 0, [("full", "dev"), ("full", "release"), ("noauto", "dev"), ("nofin", "dev")]),
    "C13": heap("unwrap", 0, [("full", "dev"), ("full", "release"), ("nofin", "dev"), ("min", "release")], quick=20000),
    "C14": heap("cyclic", 2, [("full", "dev"), ("full", "release"), ("nofin", "dev")]),
}

def simple(engine, configs, quick, thorough, args=None):
    return [{"engine": engine, "config": c, "profile": p, "shard": 10 + k, "args": dict(args or {}),
             "quick": {"cases": quick}, "thorough": {"cases": thorough}} for k, (c, p) in enumerate(configs)]


PLAN["C03"] += simple("layout", [("full", "dev"), ("nofin", "dev"), ("min", "release")], 4000, 150000)
PLAN["C13"] += simple("layout", [("full", "dev"), ("min", "release")], 4000, 150000)
PLAN["C15"] = simple("policy", [("full", "dev"), ("full", "release"), ("default", "dev"), ("noauto", "dev")], 3000, 60000)
PLAN["C16"] = simple("limits", [("full", "dev"), ("full", "release"), ("nofin", "dev"), ("default", "release")], 400, 6000)
PLAN["C17"] = simple("containers", [("full", "dev"), ("full", "release"), ("default", "dev")], 4000, 120000)
PLAN["C20"] = simple("fwd", [("full", "release"), ("min", "release"), ("full", "dev")], 20000, 500000) + \
    simple("layout", [("full", "dev"), ("min", "release"), ("full", "release")], 4000, 150000)

def g4(config, profile, opprofile, quick, thorough, shard):
    return {"engine": "g4", "config": config, "profile": profile, "shard": shard, "args": {"profile": opprofile, "pairs": 8},
            "quick": {"cases": quick}, "thorough": {"cases": thorough}}


PLAN["C07"] = [g4("full", "dev", "general", 1500, 40000, 20), g4("full", "release", "general", 1500, 40000, 21),
               g4("nofin", "dev", "general", 1500, 40000, 22), g4("nofin", "release", "general", 1000, 40000, 23),
               g4("full", "dev", "weak", 1000, 30000, 24), g4("full", "release", "cleaners", 1000, 30000, 25),
               g4("full", "dev", "cyclic", 1000, 30000, 26), g4("default", "release", "finalizers", 1000, 30000, 27),
               g4("noauto", "dev", "nesting", 1000, 30000, 28)] + heap("general", 2, [("full", "dev"), ("nofin", "release")], quick=6000)
PLAN["C14"] += [g4("full", "dev", "cyclic", 800, 30000, 29), g4("nofin", "release", "cyclic", 800, 30000, 30)]
def g2(config, profile, shards, qdepth, tdepth, faults=0):
    return [{"engine": "g2", "config": config, "profile": profile, "shard": 0, "args": {"faults": faults, "g2-shard": k, "g2-shards": shards},
             "quick": {"depth": qdepth}, "thorough": {"depth": tdepth}} for k in range(shards)]


# long histories (160 operations): fewer, bigger cases
PLAN["C01"] += heap("long", 1, [("full", "dev"), ("nofin", "release")], quick=1500, thorough=40000)
PLAN["C02"] += heap("long", 0, [("full", "release"), ("default", "dev")], quick=1500, thorough=40000)
PLAN["C04"] += heap("long", 0, [("full", "dev")], quick=1500, thorough=40000)
PLAN["C11"] += heap("long", 0, [("full", "dev"), ("nofin", "dev")], quick=1500, thorough=40000)
PLAN["C01"] += g2("full", "dev", 4, 4, 5) + g2("nofin", "release", 2, 4, 5)
PLAN["C02"] += g2("full", "release", 4, 4, 5)
PLAN["C04"] += g2("full", "dev", 4, 4, 5)
PLAN["C05"] += g2("full", "release", 3, 4, 5)
PLAN["C08"] += g2("full", "dev", 3, 4, 5)
PLAN["C13"] += g2("full", "release", 3, 4, 5)
PLAN["C07"] += g2("full", "dev", 6, 4, 5, faults=1) + g2("nofin", "release", 2, 3, 4, faults=1)
G3 = {"engine": "g3", "config": "full", "profile": "dev", "tiers": ["thorough"], "workers": 8, "args": {}, "thorough": {"runs": 40000}, "timeout": 5000}
for _p in ("C01", "C03", "C05", "C07"):
    PLAN[_p] = PLAN[_p] + [dict(G3)]
PLAN["C18"] = [{"engine": "derive", "config": "default", "profile": "dev", "args": {}, "quick": {}, "thorough": {}}]
PLAN["C19"] = simple("threads", [("full", "dev"), ("full", "release"), ("nofin", "dev")], 150, 6000) + \
    simple("teardown", [("full", "dev"), ("full", "release"), ("default", "dev"), ("min", "release")], 150, 4000)

# the counter-limit walks also decide the count statements of C04 / C09 and the upgrade statement of C08 at the boundary values
PLAN["C04"] += simple("limits", [("full", "release"), ("default", "dev")], 400, 6000)
PLAN["C09"] += simple("limits", [("full", "dev"), ("nofin", "release")], 400, 6000)
PLAN["C08"] += simple("limits", [("full", "dev"), ("full", "release")], 400, 6000)

LEVEL = {"C07": "fault_enumeration"}

RULES = {
    "C01": "proptest-generated heap programs (<=40 ops over Node objects; profile 'general' with up to 2 injected callback panics, plus profile 'resurrection', plus profile 'long' with <=160 ops), each run fault-free and then with faults placed relative to the fault-free callback counts. Non-trivial: a collector call dropped >=1 object while an object that had earlier lost a (non-last) pointer stayed program-reachable, and a further program operation ran afterwards. Distinct by FNV hash of the executed case (ops + fault plan).",
    "C02": "panic-free proptest heap programs (profile 'garbage'); quiescent collection loop at the end with handles held and again after releasing every root. Non-trivial: the collector reclaimed an object lying on a cycle of the shadow graph that had been traced by an earlier collection call or un-buffered (clone/mark_alive) before. Distinct by case hash.",
    "C03": "proptest heap programs with the tracking allocator's rules on. Non-trivial: the case released >=1 allocation through the collector and >=1 through the reference-count path or try_unwrap. Distinct by case hash.",
    "C04": "proptest heap programs (profiles 'general' and 'long'); exact shadow strong counts after every operation; plus the counter-limit walks of C16 (strong count after every clone/upgrade/drop at and around 16382 pointers, including refused operations). Non-trivial: in a call without any collection >=2 objects were reclaimed by the reference-count path (a cascade) and one of them had lost a pointer before or had been traced by an earlier collection. Distinct by case hash.",
    "C05": "proptest heap programs with finalizer-heavy profile. Non-trivial: >=2 finalize calls inside one collector call, or a reference-count-path finalize of an object that had been buffered. Distinct by case hash.",
    "C06": "proptest heap programs whose finalizers resurrect (clone of a field, upgrade of a weak, store into a live object). Non-trivial: a collector call both resurrected >=1 finalized object and dropped >=1 other object, and the resurrected object was later read through a program handle. Distinct by case hash.",
    "C07": "crash-point enumeration (engine g4): every proptest-generated program (profiles general, weak, cleaners, cyclic, finalizers, nesting) is executed fault-free, then once per (callback kind in {trace entry, trace exit, finalize, drop, cleaning action, new_cyclic closure}, invocation index k) for ALL k up to the fault-free invocation count (capped at 64 per kind; coverage.programs_fully_enumerated counts the programs below the cap), then with 8 sampled pairs of successive faults; the rest of the program and the epilogue (2 collections, release of every root, 2 collections, upgrade of every weak handle) run after each fault. Plus proptest-sampled double faults (engine g1). Non-trivial: after a fault, a later call traced an object that had already been traced before the fault. Distinct by FNV hash of (program, fault plan).",
    "C08": "proptest heap programs with weak-heavy profile (upgrades at top level, in finalizers, destructors, cleaning actions); plus the counter-limit walks of C16 on live and on released allocations (upgrade must succeed below the limit on a live value and never on a released one, also with 32767 Weak pointers outstanding). Non-trivial: an upgrade was attempted from a destructor or cleaning action while a collector was running, or the case saw both a successful and a failing upgrade. Distinct by case hash.",
    "C09": "proptest heap programs over few objects with count-heavy profile; Cc::weak_count, Weak::weak_count, Weak::strong_count checked after every operation; plus the counter-limit walks of C16 (weak count exact at and around 32767 Weak pointers, on live and on released allocations, including refused clones/downgrades). Non-trivial: a weak handle was queried after its value had been released. Distinct by case hash.",
    "C10": "proptest heap programs with cleaner profile. Non-trivial: a cleaner with >=2 actions, >=1 of them already run by clean(), whose owner was reclaimed by the collector. Distinct by case hash.",
    "C11": "proptest heap programs; buffer walk, cached size, byte accounting after every operation. Non-trivial: buffered_objects_count() changed >=4 times through >=3 different kinds of operation. Distinct by case hash.",
    "C12": "proptest heap programs with nesting profile. Non-trivial: a collection was started from a callback of a plain reference-count drop, or a collection was requested from a collector callback. Distinct by case hash.",
    "C13": "proptest heap programs with try_unwrap-heavy profile. Non-trivial: an Ok on an object that had lost a pointer before or had weak pointers, and an Err in the same case. Distinct by case hash.",
    "C15": "proptest allocation/release workloads (leaves of 9 size classes up to 64 KiB, garbage and live rings, releases, buffering, explicit collections, configuration changes at arbitrary points; percent from {0, 1e-9, 0.05, 0.1, 0.5, 0.9, 0.99, 1}; buffered threshold None or 1..8). Non-trivial: the byte threshold both grew and shrank during the workload and >=1 creation happened within 4200 bytes of the trigger boundary. Distinct by FNV hash of the workload.",
    "C16": "proptest cases: object variant (created inside a finalizer or not, self-cycle or not, side record or not) x route to the limit (clone / upgrade / mixed) x start offset 0..3 below 16382 (strong) and 32767 (weak) x a 1..40 step walk of clone/upgrade/downgrade/Weak::clone/drop/Weak::drop; in a quarter of the cases every Cc is released first (by the counter or, for the self cycle, by the collector) and the walk runs on the released allocation with up to 32767 Weak pointers. Non-trivial: the walk hit a limit and either moved away and came back, or hit limits twice. Distinct by case hash.",
    "C17": "proptest cases: container shape (tuples 1..12, arrays 0/1/2/3/8/32, Vec 0..40, boxed slice, Box, Option, Result, RefCell free/borrowed/mutably borrowed, ManuallyDrop, AssertUnwindSafe, Box<dyn Trace>, 10 two-level nestings, a tuple with Weak/Cleaner/Cleanable/PhantomData/scalars, and EVERY composition of depth 1..3 of 15 wrappers {Vec, [T;2], Box<[T]>, Box, Option, Result::Ok, Result::Err, (T,), (u32,T), (T,T), RefCell, ManuallyDrop, AssertUnwindSafe, [T;1], Box<dyn Trace>} around a probe: the 3 615 compositions are enumerated as a seed-independent grid (3 cases each) before the random cases) x which positions own a Cc x which one carries the cycle back to the owner x which targets have an extra program handle. Non-trivial: the cycle routed through the chosen position was reclaimed. Distinct by case hash.",
    "C18": "seeded grammar of type definitions (structs unit/tuple/named with 0..8 fields, enums with 1..4 variants of mixed kinds, #[rust_cc(ignore)] on fields and variants, 0-2 type parameters and a const parameter with inline bounds or a where clause, parameters used directly and inside containers, nested std containers two levels deep, unrelated attributes and doc comments on types and fields; ignored fields alternate between a probe and a type without Trace); 150 types + 40 Drop-conflict probes per quick run (1500 + 200 thorough), compiled with the real derive macro and executed. Non-trivial: a type definition with >=1 ignored and >=1 traced probe position. Distinct by hash of the definition.",
    "C19": "(a) proptest: 2..16 threads, one generated panic-free heap program per thread, yields at generated operation boundaries, result compared with the same program run alone; (b) proptest thread-teardown scenarios run in child processes (thread-locals with Ccs/Weaks/cleanables registered before or after the collector's thread-local; unique, buffered, cyclic objects; garbage cycles buffered at exit). Non-trivial: (a) >=2 threads were inside collect_cycles() at the same time (shared atomic counter); (b) a scenario with objects in thread-locals or garbage buffered at exit. Distinct by case hash.",
    "C20": "(a) proptest value pairs over i32, u8, f64 and f32 (NaN, +-0, infinities), String, (i32, String), Option<i64>: every comparison operator, cmp, hash (SipHash and FNV), Debug and Display under 10 + 12 format specifications (width, fill, alignment, sign, alternate, zero padding, precision) including a payload that prints the formatter's options, Default on Cc<T> against T; (b) layout grid 13 alignments (1..4096) x 8 sizes (0..4096) x linked/plain payloads with generated programs: address laws after every operation. Non-trivial: pairs with x != y (trait half) / programs of >=3 operations (address half). Distinct by case hash.",
    "C14": "proptest heap programs with new_cyclic-heavy profile and faults. Non-trivial: a new_cyclic call during which a collection ran, or whose closure panicked after saving a weak clone. Distinct by case hash.",
}

HEAP_NOTE = ("Trusted: the harness (shadow graph, callbacks, tracking allocator), the read-only hooks, rustc. "
             "Sampling, not proof: object graphs of <= 48 Node objects, programs of <= 64 operations (<= 184 in profile 'long') plus epilogue, "
             "built from single operations and generated idioms (clusters, cleaner bursts); the payload type is one fixed Node layout.")


def claim(technique, text, note=HEAP_NOTE, engine="g1-proptest-heap"):
    return {"technique": technique, "text": text, "note": note, "engine": engine}


CLAIMS = {
    "C01": claim("stateful property-based testing (proptest) against a shadow-graph reachability oracle, poisoning allocator",
                 "Generated API histories on all 8 feature/profile builds; after every operation every program-reachable object is read through real pointers (canary, identity, box liveness); Drop/free of a reachable object is flagged at the instant it happens. Held on everything explored; no absence claim."),
    "C02": claim("stateful property-based testing (proptest), completeness oracle Live <= Reach U Pinned after quiescent collection",
                 "Panic-free generated histories; collect_cycles() repeated to quiescence with roots held and after releasing all roots; every unreachable, unpinned object must be gone."),
    "C03": claim("property-based testing with an instrumented global allocator (double free / layout / order rules)",
                 "Allocator side table checks every release of a crate allocation (known block, same layout, not twice); Drop callbacks check the canary (once, never on freed or unconstructed memory)."),
    "C04": claim("stateful property-based testing (proptest), exact reference-count model",
                 "strong_count of every reachable object compared with the number of Cc pointers in the shadow graph after every operation; last-owner drops outside collections must reclaim at once, recursively."),
    "C05": claim("stateful property-based testing (proptest), instant rules inside the Finalize callback",
                 "Every finalize call is checked at the instant it runs: target unreachable from pre-existing pointers, at most once, before Drop, neighbours undropped and intact, flag model."),
    "C06": claim("stateful property-based testing (proptest) with resurrecting finalizer scripts, bounded-work invariant",
                 "Finalizers resurrect themselves/neighbours by clone, weak upgrade or store into live objects; survivors must stay intact and usable, the rest reclaimed, callbacks per API call bounded."),
    "C07": claim("crash-point enumeration over generated programs (every callback invocation index of every kind, plus sampled fault pairs), same oracles in the continuation",
                 "For each generated program every single crash point (kind, k) is executed; the injected panic must reach the caller of the API call, the collector must be idle afterwards (is_tracing false, phase flags clear, buffer consistent), and the C01/C03/C05/C08 rules stay on for the rest of the program and a fixed epilogue. Enumeration is complete per program (up to the 64-per-kind cap); programs themselves are sampled.", engine="g4-crash-point-enumerator"),
    "C08": claim("stateful property-based testing (proptest), three-valued upgrade expectation + post-hoc batch rule",
                 "Every Weak::upgrade (top level, finalizers, destructors, cleaning actions) is compared with the shadow state of the target; Some must be the right, intact allocation; None on a live owned target is a violation unless the target is destroyed in the same batch."),
    "C09": claim("stateful property-based testing (proptest), exact weak/strong count model, allocator-observed side record",
                 "Cc::weak_count, Weak::weak_count, Weak::strong_count after every operation against the shadow graph, including handles that outlive value and box; side-record block lifetime from the allocator."),
    "C10": claim("stateful property-based testing (proptest), per-action invocation counters",
                 "Each cleaning action counts its runs: never more than once; exactly once after a top-level clean() and after the owner's destruction (panic-free); dropping a Cleanable changes nothing."),
    "C11": claim("stateful property-based testing (proptest), differential check of counters against hook walk and allocator",
                 "After every operation: cached buffer size vs walked list, link integrity, entries live and marked; allocated_bytes vs the allocator's live managed blocks; executions_count steps."),
    "C12": claim("stateful property-based testing (proptest) with nested-callback scripts; is_tracing() sampled in every callback",
                 "is_tracing() is read in every Trace/Finalize/Drop/action callback and between operations; collection requests from collector callbacks must be no-ops; try_unwrap/finalize_again inside callbacks must refuse and leave the object unchanged."),
    "C13": claim("stateful property-based testing (proptest), uniqueness oracle from the shadow graph",
                 "try_unwrap at top level: Ok iff the shadow graph has exactly one Cc; on Ok the value is intact, nothing ran, box released, not buffered; on Err the header word and buffer are unchanged."),
    "C14": claim("property-based testing with fault injection around new_cyclic (closure scripts, due automatic collections)",
                 "Inside the closure the weak is dead and counts are exact; afterwards strong_count is 1; if the closure or the triggered collection panics no Node destructor may run on unconstructed memory (canary), the box is released and saved weaks stay dead."),
}

SIMPLE_NOTE = "Trusted: the harness oracle code, the read-only hooks, rustc. Sampling over the stated grid, not proof."
CLAIMS["C15"] = claim("property-based testing (proptest) of allocation workloads against the documented trigger condition and a threshold validity predicate",
                      "Around every top-level Cc::new the executions_count delta is compared with auto_collect && (bytes > threshold || buffered > buffered_threshold) read just before (threshold through the read-only hook); after every collection the threshold must be 100*2^k, above the bytes, and not needlessly high.", SIMPLE_NOTE, "policy")
CLAIMS["C16"] = claim("property-based testing (proptest), saturating-counter model at the boundary values",
                      "Walks of pointer operations around 16382 strong / 32767 weak pointers: an operation that would exceed the limit must panic with all counts unchanged, otherwise succeed; flag bits sharing the word and already_finalized() never change; afterwards the object is finalized once, dropped once and freed.", SIMPLE_NOTE, "limits")
CLAIMS["C17"] = claim("property-based testing (proptest) over macro-instantiated container shapes with counting probe leaves and the trace-report hook",
                      "Per shape and position: every probe is traced exactly as often as its owner (0 under a borrowed RefCell), the allocations reported to the collector are exactly the owned Ccs, the cycle through the chosen position is reclaimed, targets with an extra handle survive intact, finalizers are forwarded once.", SIMPLE_NOTE, "containers")
CLAIMS["C20"] = claim("property-based testing (proptest): differential Cc<T> vs T on value pairs; address laws on a layout grid",
                      "Every forwarding trait method on Cc<T> is compared with the same call on T for generated pairs; Deref/AsRef/Borrow addresses are equal, aligned, inside the live block, stable across clones/upgrades/collections; ptr_eq iff same allocation.", SIMPLE_NOTE, "fwd+layout")

CLAIMS["C18"] = claim("grammar-based generation of type definitions compiled with the real derive macro; probe-count oracle; rustc error-code oracle for Drop conflicts",
                      "Generated struct/enum definitions are compiled with #[derive(Trace, Finalize)] and executed: probes in non-ignored positions of the active variant are traced exactly as often as their owner, all others never; derived Finalize forwards nothing; a user Drop is rejected with exactly one E0119 unless unsafe_no_drop is given. Failing types are shrunk by deleting fields and variants.",
                      "Trusted: the generator/oracle (lib/derivegen.py), rustc's diagnostics. Sampling over the grammar.", "derive")
CLAIMS["C19"] = claim("property-based differential testing (concurrent vs solo execution of generated per-thread programs); generated teardown scenarios in child processes",
                      "Each thread's observable result (event log, every count read, counters) must equal that of the same program run alone - schedule-independent, so no interleaving can raise a false alarm; thread-exit scenarios must end with exit status 0, no allocator rule violated and no callback on a dead value.",
                      "Interleavings are sampled by the OS scheduler, not enumerated (loom/shuttle cannot model std::thread_local!); the teardown half is deterministic.", "threads+teardown")

NOT_APPLICABLE = []

ENGINES_EXTRA = [
    {"name": "g3-libfuzzer", "path": "/verif/harness/fuzz (cargo +nightly fuzz run heap)", "serves_properties": ["C01", "C03", "C05", "C07"], "kind_free_text": "coverage-guided fuzzing (libFuzzer + AddressSanitizer) of byte-decoded heap programs with fault plans; same interpreter and rules inside the target; thorough tier only; fixed -runs and -seed per worker"},
    {"name": "g2-small-scope-enumerator", "path": "/verif/harness/src/main.rs (rccv g2)", "serves_properties": ["C01", "C02", "C04", "C05", "C07", "C08", "C13"], "kind_free_text": "exhaustive enumeration of all operation sequences up to a depth over a 50-letter reduced alphabet (<=3 handles addressable), same interpreter and rules; seed-independent floor under the random search"},
    {"name": "g4-crash-point-enumerator", "path": "/verif/harness/src/main.rs (rccv g4)", "serves_properties": ["C07", "C14"], "kind_free_text": "enumerates every callback invocation index of every callback kind of each generated program as a panic point; sampled pairs; own delta-debugging shrinker"},
    {"name": "policy", "path": "/verif/harness/src/policy.rs (rccv policy)", "serves_properties": ["C15"], "kind_free_text": "proptest workloads for the automatic collection policy"},
    {"name": "limits", "path": "/verif/harness/src/limits.rs (rccv limits)", "serves_properties": ["C04", "C08", "C09", "C16"], "kind_free_text": "proptest boundary walks at the counter limits, on live and on released allocations"},
    {"name": "containers", "path": "/verif/harness/src/containers.rs (rccv containers)", "serves_properties": ["C17"], "kind_free_text": "proptest over container shapes with probe leaves, preceded by an enumerated grid of every composition of depth 1-3 of 15 wrappers"},
    {"name": "layout", "path": "/verif/harness/src/layout.rs (rccv layout)", "serves_properties": ["C03", "C13", "C20"], "kind_free_text": "proptest programs over a grid of payload layouts with the tracking allocator"},
    {"name": "derive", "path": "/verif/lib/derivegen.py", "serves_properties": ["C18"], "kind_free_text": "seeded grammar of type definitions -> generated crates compiled with the real derive macro"},
    {"name": "threads+teardown", "path": "/verif/harness/src/threads.rs (rccv threads | teardown)", "serves_properties": ["C19"], "kind_free_text": "proptest per-thread programs run concurrently vs solo; teardown scenarios in child processes"},
    {"name": "fwd", "path": "/verif/harness/src/fwd.rs (rccv fwd)", "serves_properties": ["C20"], "kind_free_text": "proptest value pairs, Cc<T> vs T"},
]

ENGINES = [
    {"name": "g1-proptest-heap", "path": "/verif/harness (rccv g1)", "serves_properties": sorted(PLAN.keys()),
     "kind_free_text": "proptest TestRunner driven from a binary: generated heap programs (Vec<Op> + callback scripts + fault requests) interpreted against the real crate with a shadow graph, instrumented callbacks and a tracking/poisoning allocator; integrated shrinking; fixed seeds"},
] + ENGINES_EXTRA
