"""C18: derive(Trace)/derive(Finalize) on generated type definitions.

A seeded grammar produces type definitions (structs unit/tuple/named with 0..8 fields, enums with
1..4 variants of mixed kinds, `#[rust_cc(ignore)]` on fields and variants, a type parameter,
nested std containers). Two crates are generated under /verif/target/gen/:
  * run crate: every type, one value per variant, wrapped in a counting owner; a collection is
    run per value and the per-probe trace/finalize counts are printed as JSON;
  * conflict crate: the same kinds of type each with a user `impl Drop`, with and without
    `#[rust_cc(unsafe_no_drop)]`; `cargo check --message-format=json` must report exactly one
    E0119 (conflicting implementations of Drop) per type without the attribute, none otherwise.
The oracle lives here (Python); failing types are shrunk by deleting fields/variants.
"""
import hashlib
import json
import os
import random
import shutil
import subprocess
import time

ROOT = os.path.dirname(os.path.dirname(os.path.abspath(__file__)))
GEN = os.path.join(ROOT, "target", "gen")
ENV = dict(os.environ, CARGO_NET_OFFLINE="true", RUST_BACKTRACE="0")

FIELD_TYPES = [
    # (rust type with {P} = Probe, constructor with {p}() producing probes, number of probes)
    ("Probe", "{p}()", 1),
    ("Vec<Probe>", "vec![{p}(), {p}()]", 2),
    ("Option<Probe>", "Some({p}())", 1),
    ("Option<Probe>", "None", 0),
    ("(Probe, Probe)", "({p}(), {p}())", 2),
    ("Box<Probe>", "Box::new({p}())", 1),
    ("RefCell<Probe>", "RefCell::new({p}())", 1),
    ("[Probe; 2]", "[{p}(), {p}()]", 2),
    ("Result<Probe, Probe>", "Err({p}())", 1),
    ("T", "{p}()", 1),  # the type parameter, instantiated with Probe
    ("u32", "7", 0),
    ("String", "String::from(\"s\")", 0),
    # uses of the parameters inside containers; U = second type parameter, N = const parameter (2)
    ("Vec<T>", "vec![{p}(), {p}()]", 2),
    ("Option<T>", "Some({p}())", 1),
    ("(T, Probe)", "({p}(), {p}())", 2),
    ("Box<T>", "Box::new({p}())", 1),
    ("U", "{p}()", 1),
    ("Option<U>", "Some({p}())", 1),
    ("[Probe; N]", "[{p}(), {p}()]", 2),
    ("std::marker::PhantomData<T>", "std::marker::PhantomData", 0),
    # deeper nestings
    ("Option<Vec<Probe>>", "Some(vec![{p}(), {p}(), {p}()])", 3),
    ("Box<(Probe, Option<Probe>)>", "Box::new(({p}(), Some({p}())))", 2),
    ("Vec<(Probe, u32)>", "vec![({p}(), 1), ({p}(), 2)]", 2),
    ("RefCell<Option<Probe>>", "RefCell::new(Some({p}()))", 1),
    ("std::mem::ManuallyDrop<Probe>", "std::mem::ManuallyDrop::new({p}())", 1),
    ("Vec<std::mem::ManuallyDrop<Probe>>", "vec![std::mem::ManuallyDrop::new({p}())]", 1),
]


def uses(ty, param):
    """Does the field type mention the generic parameter `param` (T, U or N)?"""
    import re
    return re.search(r"(?<![A-Za-z0-9_])%s(?![A-Za-z0-9_])" % param, ty) is not None


def gen_field(rng, generic):
    """`generic` is the list of available parameters (subset of T, U, N)."""
    generic = generic or []
    while True:
        ft = rng.choice(FIELD_TYPES)
        if any(uses(ft[0], q) and q not in generic for q in ("T", "U", "N")):
            continue
        break
    ignored = rng.random() < 0.3
    if ignored and rng.random() < 0.5:
        # an ignored field may have a type that does not implement Trace at all
        return {"ty": "NoTrace", "ctor": "NoTrace({p}())", "probes": 1, "ignored": True}
    return {"ty": ft[0], "ctor": ft[1], "probes": ft[2], "ignored": ignored}


def gen_fields(rng, generic, maxn):
    kind = rng.choice(["unit", "tuple", "named"])
    n = 0 if kind == "unit" else rng.randint(0, maxn)
    return {"kind": kind, "fields": [gen_field(rng, generic) for _ in range(n)]}


GENERIC_SHAPES = [[], [], [], [], ["T"], ["T"], ["T", "U"], ["T", "N"], ["N"], ["T", "U", "N"]]


def gen_type(rng, idx):
    generic = list(rng.choice(GENERIC_SHAPES))
    if rng.random() < 0.55:
        body = gen_fields(rng, generic, 8)
        t = {"name": "S%d" % idx, "enum": False, "generic": generic, "where": rng.random() < 0.4, "attrs": rng.choice([0, 0, 0, 1, 2, 2, 3]), "variants": [dict(body, name=None, ignored=False)]}
    else:
        nv = rng.randint(1, 4)
        vs = []
        for k in range(nv):
            b = gen_fields(rng, generic, 3)
            vs.append(dict(b, name="V%d" % k, ignored=rng.random() < 0.25))
        t = {"name": "E%d" % idx, "enum": True, "generic": generic, "where": rng.random() < 0.4, "attrs": rng.choice([0, 0, 0, 1, 2, 2, 3]), "variants": vs}
    fix_generics(t)
    return t


def params(t):
    g = t.get("generic")
    if g is True:
        return ["T"]
    return list(g or [])


def fix_generics(t):
    """Every type parameter must be used by some field, otherwise rustc rejects the definition."""
    for q in params(t):
        if not any(uses(f["ty"], q) for v in t["variants"] for f in v["fields"]):
            v = t["variants"][0]
            if v["kind"] == "unit":
                v["kind"] = "tuple"
            if q == "N":
                v["fields"].append({"ty": "[Probe; N]", "ctor": "[{p}(), {p}()]", "probes": 2, "ignored": False})
            else:
                v["fields"].append({"ty": q, "ctor": "{p}()", "probes": 1, "ignored": False})


def generics_decl(t, bounds=True):
    """(`<...>` after the type name, where clause)"""
    ps = params(t)
    if not ps:
        return "", ""
    inline, where = [], []
    for q in ps:
        if q == "N":
            inline.append("const N: usize")
        elif t.get("where") and bounds:
            inline.append(q)
            where.append("%s: Trace + 'static" % q)
        else:
            inline.append("%s: Trace + 'static" % q if bounds else q)
    return "<" + ", ".join(inline) + ">", (" where " + ", ".join(where) if where else "")


def generics_args(t, concrete):
    ps = params(t)
    if not ps:
        return ""
    return "<" + ", ".join(("2" if concrete else "N") if q == "N" else ("Probe" if concrete else q) for q in ps) + ">"


def fields_src(v):
    out = []
    for i, f in enumerate(v["fields"]):
        attr = "#[rust_cc(ignore)] " if f["ignored"] else ""
        a = v.get("attrs") or 0
        if a and i % 2 == 0:
            # unrelated attributes before and/or after the rust_cc one must not disturb the derive
            if a in (1, 3):
                attr = "#[allow(dead_code)] /** doc */ " + attr
            if a in (2, 3):
                attr = attr + "/** doc */ #[allow(dead_code)] "
        if v["kind"] == "named":
            out.append("%sf%d: %s" % (attr, i, f["ty"]))
        else:
            out.append("%s%s" % (attr, f["ty"]))
    if v["kind"] == "unit":
        return ""
    if v["kind"] == "tuple":
        return "(" + ", ".join(out) + ")"
    return " { " + ", ".join(out) + " }"


def type_src(t, extra_attr="", derive="Trace, Finalize"):
    g, where = generics_decl(t)
    head = "#[derive(%s)]\n%s" % (derive, extra_attr)
    a = t.get("attrs") or 0
    if a in (1, 3):
        head = "/// generated type\n#[allow(dead_code)]\n" + head
    if a in (2, 3):
        head = head + "/// generated type\n#[repr(C)]\n"
    for v in t["variants"]:
        v["attrs"] = a
    if not t["enum"]:
        v = t["variants"][0]
        body = fields_src(v)
        if v["kind"] == "named":
            return "%spub struct %s%s%s%s\n" % (head, t["name"], g, where, body)
        return "%spub struct %s%s%s%s;\n" % (head, t["name"], g, body, where)
    vs = []
    for v in t["variants"]:
        attr = "#[rust_cc(ignore)] " if v["ignored"] else ""
        if a in (2, 3):
            attr = attr + "/** doc */ #[allow(dead_code)] "
        if a in (1, 3):
            attr = "/** doc */ " + attr
        vs.append("    %s%s%s," % (attr, v["name"], fields_src(v)))
    return "%spub enum %s%s%s {\n%s\n}\n" % (head, t["name"], g, where, "\n".join(vs))


def value_src(t, vi):
    """Constructor expression for variant `vi`, and the per-probe expectation (True = traced)."""
    v = t["variants"][vi]
    exp = []
    parts = []
    for i, f in enumerate(v["fields"]):
        parts.append(f["ctor"].replace("{p}", "p"))
        traced = not f["ignored"] and not v["ignored"]
        exp += [traced] * f["probes"]
    tf = "::" + generics_args(t, True) if params(t) else ""
    if t["enum"]:
        path = "%s::%s" % (t["name"] + tf, v["name"])
    else:
        path = t["name"] + (tf if v["kind"] != "unit" else "")
    if v["kind"] == "unit":
        expr = path
    elif v["kind"] == "tuple":
        expr = "%s(%s)" % (path, ", ".join(parts))
    else:
        expr = "%s { %s }" % (path, ", ".join("f%d: %s" % (i, p) for i, p in enumerate(parts)))
    return expr, exp


PRELUDE = r'''
#![allow(dead_code, unused_imports, clippy::all)]
use std::cell::{Cell, RefCell};
use rust_cc::*;

thread_local! {
    static TRACE: RefCell<Vec<u32>> = RefCell::new(Vec::new());
    static FIN: RefCell<Vec<u32>> = RefCell::new(Vec::new());
    static OWNER: Cell<(u32, u32)> = Cell::new((0, 0));
}

pub struct Probe(usize);
unsafe impl Trace for Probe {
    fn trace(&self, _: &mut Context<'_>) { TRACE.with(|t| t.borrow_mut()[self.0] += 1); }
}
impl Finalize for Probe {
    fn finalize(&self) { FIN.with(|t| t.borrow_mut()[self.0] += 1); }
}
fn p() -> Probe {
    TRACE.with(|t| { t.borrow_mut().push(0); });
    FIN.with(|t| { let mut f = t.borrow_mut(); f.push(0); Probe(f.len() - 1) })
}
/// a type that implements neither Trace nor Finalize: only legal in ignored positions
pub struct NoTrace(Probe);

pub struct Owner<X: Trace + 'static> { inner: X, me: RefCell<Option<Cc<Owner<X>>>> }
unsafe impl<X: Trace + 'static> Trace for Owner<X> {
    fn trace(&self, ctx: &mut Context<'_>) {
        OWNER.with(|o| { let v = o.get(); o.set((v.0 + 1, v.1)); });
        self.inner.trace(ctx);
        self.me.trace(ctx);
    }
}
impl<X: Trace + 'static> Finalize for Owner<X> {
    fn finalize(&self) {
        OWNER.with(|o| { let v = o.get(); o.set((v.0, v.1 + 1)); });
        self.inner.finalize();
    }
}

fn exercise<X: Trace + 'static>(label: &str, build: impl FnOnce() -> X) {
    TRACE.with(|t| t.borrow_mut().clear());
    FIN.with(|t| t.borrow_mut().clear());
    OWNER.with(|o| o.set((0, 0)));
    let cc = Cc::new(Owner { inner: build(), me: RefCell::new(None) });
    // phase A: held and buffered
    drop(cc.clone());
    collect_cycles();
    let n_a = OWNER.with(|o| o.get().0);
    let trace_a: Vec<u32> = TRACE.with(|t| t.borrow().clone());
    // phase B: self-cycle, released, collected
    *cc.me.borrow_mut() = Some(cc.clone());
    drop(cc);
    collect_cycles();
    collect_cycles();
    let (n_total, ofin) = OWNER.with(|o| o.get());
    let trace_b: Vec<u32> = TRACE.with(|t| t.borrow().clone());
    let fin: Vec<u32> = FIN.with(|t| t.borrow().clone());
    println!("{{\"label\": \"{}\", \"n_a\": {}, \"trace_a\": {:?}, \"n_total\": {}, \"trace_total\": {:?}, \"owner_fin\": {}, \"fin\": {:?}, \"bytes\": {}}}",
        label, n_a, trace_a, n_total, trace_b, ofin, fin, rust_cc::state::allocated_bytes().unwrap_or(0));
}
'''


def write_crate(dirname, name, main_src, extra_files=None):
    d = os.path.join(GEN, dirname)
    os.makedirs(os.path.join(d, "src"), exist_ok=True)
    cargo = '[package]\nname = "%s"\nversion = "0.1.0"\nedition = "2021"\npublish = false\n\n[workspace]\n\n[dependencies]\nrust-cc = { path = "/repo" }\n' % name
    old = None
    cp = os.path.join(d, "Cargo.toml")
    if os.path.exists(cp):
        old = open(cp).read()
    if old != cargo:
        open(cp, "w").write(cargo)
    lock = os.path.join(d, "Cargo.lock")
    if not os.path.exists(lock):
        shutil.copy("/repo/Cargo.lock", lock)
    open(os.path.join(d, "src", "main.rs"), "w").write(main_src)
    return d


def cargo(args, cwd, timeout=900):
    p = subprocess.run(["cargo"] + args + ["--offline", "--target-dir", os.path.join(GEN, "target")], cwd=cwd, env=ENV,
                       stdout=subprocess.PIPE, stderr=subprocess.PIPE, text=True, timeout=timeout)
    return p.returncode, p.stdout, p.stderr


def run_crate_src(types):
    src = [PRELUDE]
    for t in types:
        src.append(type_src(t))
    src.append("fn main() {")
    expectations = {}
    for t in types:
        for vi in range(len(t["variants"])):
            expr, exp = value_src(t, vi)
            label = "%s#%d" % (t["name"], vi)
            expectations[label] = exp
            src.append("    exercise(\"%s\", || %s);" % (label, expr))
    src.append("}")
    return "\n".join(src), expectations


def judge(expectations, lines):
    """Returns list of (label, signature, detail)."""
    bad = []
    seen = set()
    for line in lines:
        line = line.strip()
        if not line.startswith("{"):
            continue
        r = json.loads(line)
        label = r["label"]
        seen.add(label)
        exp = expectations[label]
        if len(r["trace_a"]) != len(exp):
            bad.append((label, "probe-count-mismatch", "generator/harness mismatch: %d probes, expected %d" % (len(r["trace_a"]), len(exp))))
            continue
        if r["n_a"] == 0:
            bad.append((label, "owner-not-traced", "owner was not traced"))
        for i, traced in enumerate(exp):
            want_a = r["n_a"] if traced else 0
            want_t = r["n_total"] if traced else 0
            if r["trace_a"][i] != want_a or r["trace_total"][i] != want_t:
                kind = "ignored-position-traced" if not traced else ("field-skipped" if r["trace_total"][i] < want_t else "field-traced-twice")
                bad.append((label, "derive-trace/" + kind, "probe %d of %s traced %d times (owner %d); expected %d" % (i, label, r["trace_total"][i], r["n_total"], want_t)))
        if any(f != 0 for f in r["fin"]):
            bad.append((label, "derive-finalize/not-empty", "derived Finalize forwarded to fields: %s" % r["fin"]))
        if r["bytes"] != 0:
            bad.append((label, "derive-trace/cycle-not-reclaimed", "allocated_bytes() = %d after the self-cycle was released" % r["bytes"]))
    for label in expectations:
        if label not in seen:
            bad.append((label, "no-output", "no result line for %s" % label))
    return bad


def run_types(types, tag):
    src, exp = run_crate_src(types)
    d = write_crate("run-" + tag, "c18run", src)
    rc, out, err = cargo(["run", "-q"], d)
    if rc != 0:
        # a compile error in the run crate: the derive rejected a legal definition
        msg = "\n".join(l for l in err.splitlines() if l.startswith("error"))[:600]
        return [("*", "derive-run-crate/compile-or-run-failed", msg or err[-600:])], exp
    return judge(exp, out.splitlines()), exp


def conflict_types(rng, n):
    out = []
    for i in range(n):
        t = gen_type(rng, 1000 + i)
        t["name"] = "D%d" % i
        t["no_drop"] = rng.random() < 0.4
        out.append(t)
    return out


def conflict_src(types):
    src = ["#![allow(dead_code, unused_imports)]\nuse std::cell::RefCell;\nuse rust_cc::*;\npub struct Probe(usize);\nunsafe impl Trace for Probe { fn trace(&self, _: &mut Context<'_>) {} }\nimpl Finalize for Probe {}\npub struct NoTrace(Probe);\n"]
    for t in types:
        attr = "#[rust_cc(unsafe_no_drop)]\n" if t["no_drop"] else ""
        src.append(type_src(t, extra_attr=attr))
        g, where = generics_decl(t)
        ga = generics_args(t, False)
        src.append("impl%s Drop for %s%s%s { fn drop(&mut self) {} }\n" % (g, t["name"], ga, where))
    src.append("fn main() {}\n")
    return "\n".join(src)


def run_conflicts(types, tag):
    d = write_crate("conflict-" + tag, "c18conflict", conflict_src(types))
    rc, out, err = cargo(["check", "--message-format=json", "-q"], d)
    e0119 = {}
    other_errors = []
    for line in out.splitlines():
        try:
            m = json.loads(line)
        except Exception:
            continue
        msg = m.get("message") or {}
        if msg.get("level") == "error":
            code = (msg.get("code") or {}).get("code")
            text = msg.get("message", "")
            if code == "E0119" and "Drop" in text:
                for t in types:
                    if "`%s`" % t["name"] in text or "`%s<" % t["name"] in text:
                        e0119[t["name"]] = e0119.get(t["name"], 0) + 1
            elif "aborting" not in text and "could not compile" not in text:
                other_errors.append("%s %s" % (code, text[:150]))
    bad = []
    for t in types:
        n = e0119.get(t["name"], 0)
        if t["no_drop"] and n != 0:
            bad.append((t["name"], "drop-conflict/with-unsafe_no_drop", "%d E0119 errors for a type with #[rust_cc(unsafe_no_drop)]" % n))
        if not t["no_drop"] and n != 1:
            bad.append((t["name"], "drop-conflict/missing", "%d E0119 errors for a type with a user Drop and no unsafe_no_drop (expected 1)" % n))
    if other_errors:
        bad.append(("*", "drop-conflict/unexpected-error", "; ".join(other_errors[:3])))
    return bad


def shrink(types_one, tag, budget=12):
    """Greedy: delete fields / variants while the type still fails."""
    t = json.loads(json.dumps(types_one))
    tries = 0
    changed = True
    while changed and tries < budget:
        changed = False
        for v in list(t["variants"]):
            if len(t["variants"]) > 1 and tries < budget:
                cand = json.loads(json.dumps(t))
                cand["variants"] = [x for x in cand["variants"] if x["name"] != v["name"]]
                if all(any(uses(f["ty"], q) for x in cand["variants"] for f in x["fields"]) for q in params(cand)):
                    tries += 1
                    bad, _ = run_types([cand], tag + "-shrink")
                    if bad:
                        t = cand
                        changed = True
                        continue
            for i in range(len(v["fields"])):
                if tries >= budget:
                    break
                cand = json.loads(json.dumps(t))
                cv = [x for x in cand["variants"] if x["name"] == v["name"]]
                if not cv or i >= len(cv[0]["fields"]):
                    continue
                del cv[0]["fields"][i]
                if not all(any(uses(f["ty"], q) for x in cand["variants"] for f in x["fields"]) for q in params(cand)):
                    continue
                tries += 1
                bad, _ = run_types([cand], tag + "-shrink")
                if bad:
                    t = cand
                    changed = True
                    break
    return t


def is_nontrivial(t):
    fs = [(f, v) for v in t["variants"] for f in v["fields"]]
    return any(f["ignored"] or v["ignored"] for f, v in fs) and any((not f["ignored"]) and (not v["ignored"]) and f["probes"] > 0 for f, v in fs)


def run_check(pid, tier, seed, replay_path):
    """Entry point used by /verif/check. Returns (rc, report)."""
    t0 = time.time()
    n_types, n_conf = (150, 40) if tier == "quick" else (1500, 200)
    rng = random.Random(seed * 7919 + 18)
    types = [gen_type(rng, i) for i in range(n_types)]
    tag = "%s-%s" % (tier, seed)
    violation = None
    bad, _ = run_types(types, tag)
    conf = conflict_types(rng, n_conf)
    bad_conf = run_conflicts(conf, tag)
    if bad:
        label, sig, detail = bad[0]
        failing = None
        if label != "*":
            tn = label.split("#")[0]
            failing = [t for t in types if t["name"] == tn][0]
            failing = shrink(failing, tag)
        else:
            # compile failure: bisect by type
            for t in types:
                b1, _ = run_types([t], tag + "-bisect")
                if b1:
                    failing = shrink(t, tag)
                    break
        replay = {"property": pid, "engine": "derive", "kind": "derive", "configuration": "default", "case": {"types": [failing] if failing else types, "conflicts": []}, "signature": sig, "detail": detail,
                  "source": type_src(failing) if failing else None}
        json.dump(replay, open(replay_path, "w"), indent=1)
        violation = {"signature": sig, "replay": replay_path, "detail": detail}
    elif bad_conf:
        label, sig, detail = bad_conf[0]
        failing = [t for t in conf if t["name"] == label] or conf
        replay = {"property": pid, "engine": "derive", "kind": "derive", "configuration": "default", "case": {"types": [], "conflicts": failing}, "signature": sig, "detail": detail}
        json.dump(replay, open(replay_path, "w"), indent=1)
        violation = {"signature": sig, "replay": replay_path, "detail": detail}
    hashes = []
    samples = []
    classes = {}
    for t in types:
        k = ("enum" if t["enum"] else "struct") + ("-generic" if params(t) else "") + ("-const" if "N" in params(t) else "") + ("-where" if params(t) and t.get("where") else "")
        classes[k] = classes.get(k, 0) + 1
        if is_nontrivial(t):
            hashes.append(int(hashlib.md5(json.dumps(t, sort_keys=True).encode()).hexdigest()[:12], 16))
            if len(samples) < 3:
                samples.append({"type_definition": type_src(t)})
    for t in conf:
        classes["conflict-probe" + ("-no_drop" if t["no_drop"] else "")] = classes.get("conflict-probe" + ("-no_drop" if t["no_drop"] else ""), 0) + 1
    values = sum(len(t["variants"]) for t in types)
    report = {"prop": pid, "evaluations": values + len(conf), "executions": values + len(conf), "nontrivial_hashes": sorted(set(hashes)), "classes": classes,
              "foreign": {}, "known_hits": {}, "samples": samples, "hangs": 0, "harness_errors": 0, "harness_msgs": [], "events": {},
              "extra": {"engine": "derive", "config": "default", "seed": seed, "violation": violation, "types": n_types, "conflict_probes": n_conf, "wall": round(time.time() - t0, 1)}}
    return (1 if violation else 0), report


def replay(path):
    r = json.load(open(path))
    case = r["case"]
    bad = []
    if case.get("types"):
        b, _ = run_types(case["types"], "replay")
        bad += b
    if case.get("conflicts"):
        bad += run_conflicts(case["conflicts"], "replay")
    for label, sig, detail in bad:
        print("violation props=['C18'] sig=%s :: %s %s" % (sig, label, detail))
    return 1 if bad else 0
